#!/bin/sh
# Builds the framework from files on disk only (offline).
set -e
cd "$(dirname "$0")"
export CARGO_NET_OFFLINE=true
(cd engine/mirfacts && cargo +nightly build --release --offline)
# warm the facts cache for the current tree and the fixture crate, then self-test the rules on the fixtures
python3 bin/vp facts >/dev/null
python3 bin/vp selftest
