"""Self-tests of the engine pieces every rule leans on (run by `vp selftest` and with every check's fixture pass is not needed:
they have no obligations of their own). Not a property."""
from vplib import expr as E
from rules.common import FnCtx, cmp_norm


def _has_gt3(fx, name):
    """the caller body itself contains a switch on `n > 3` (or its negation)"""
    b = [x for x in fx.bodies.values() if x.sname.endswith("Cursor::" + name)][0]
    fc = FnCtx(b)

    try:
        return bool(fc.cmp_guards(lambda op, a, b: "true" if op in ("Gt", "Le") and b == ("const", 3) else None))
    except Exception as e:   # pragma: no cover
        return "error: %r" % (e,)


def fixture(fxf):
    from vplib import extract, facts as F, inline
    fx = F.load_facts([extract.facts_for_fixture()])
    names = {b.sname for b in fx.bodies.values() if b.kind in ("Fn", "AssocFn")}
    helpers = {n for n in names if n.endswith("Cursor::check") or n.endswith("Cursor::store")}
    inlined = inline.apply(fx, names - helpers)
    out = [("inline: helpers found and inlined", 2, len([n for n in inlined if n in helpers])),
           ("inline: helpers removed from the program", 0, len([b for b in fx.bodies.values() if b.sname in helpers]))]

    def unguarded_records(name):
        b = [x for x in fx.bodies.values() if x.sname.endswith("Cursor::" + name)][0]
        fc = FnCtx(b)
        ev = [bb for bb, t in fc.calls("Cursor::record")]

        def guard(e, outcome, ce=None):
            c = cmp_norm(E.strip_casts(e))
            return bool(c) and c[0] == "Gt" and c[2] == ("const", 3) and outcome == "false"
        return len(ev), len(fc.reach_avoiding(ev, guard))
    # record() is reached only through the false edge of `n > 3`: directly, through the inlined helpers (whose Err result
    # leaves through `?`) and through a verdict stored in an Option
    out.append(("direct: record events / reachable without the guard", (1, 0), unguarded_records("direct")))
    out.append(("via_helper (inlined): record events / reachable without the guard", (1, 0), unguarded_records("via_helper")))
    out.append(("via_option: record events / reachable without the guard", (1, 0), unguarded_records("via_option")))
    # the guard inside the closure of an Option combinator: with `flag == Some(_)` record() needs the false edge of `n > 3`;
    # with `flag == None` it is reached without it, so the event stays reachable (1) but only through the None arm
    exp = inline.expand_combinators(fx)
    out.append(("combinators expanded in the fixture", 4, len([x for x in exp if "Cursor::via_" in x])))
    for nm in ("via_is_some_and", "via_is_none_or", "via_map_or", "via_filter"):
        out.append(("%s (expanded): comparison visible in the caller" % nm, True, _has_gt3(fx, nm)))
    b = [x for x in fx.bodies.values() if x.sname.endswith("Cursor::via_helper")][0]
    out.append(("via_helper (inlined): field write of the helper is visible", True, bool(FnCtx(b).field_writes("Cursor", "pos"))))
    return out
