"""Helpers shared by the property rules (template vocabulary of DESIGN.md §3)."""
from vplib import expr as E
from vplib.facts import path_endswith, short_ty, AnchorError
from vplib.flow import SWAP, NEG

CMP_METHODS = {"eq": "Eq", "ne": "Ne", "lt": "Lt", "le": "Le", "gt": "Gt", "ge": "Ge"}


def cmp_norm(e):
    """('Gt', a, b) for a MIR comparison or a PartialEq/PartialOrd method call; else None"""
    if e[0] == "bin" and e[1] in SWAP:
        return (e[1], e[2], e[3])
    if e[0] == "call" and len(e[2]) == 2:
        parts = e[1].split("::")
        if len(parts) >= 2 and parts[-2] in ("PartialEq", "PartialOrd") and parts[-1] in CMP_METHODS:
            return (CMP_METHODS[parts[-1]], e[2][0], e[2][1])
    return None


class GuardEdges(list):
    """[(switch block, target)] that also remembers the predicates it was selected with, so that a guard which is stored in a
    variable first (`let fresh = a && b; if !fresh { return }`) is recognised where the variable is tested (only_through)."""

    def __init__(self, edges=(), preds=(), plain=(), present=False):
        super().__init__(edges)
        self.preds = list(preds)
        self.plain = list(plain)      # edges added without a predicate (removed literally)
        self.present = present or bool(edges)

    def __add__(self, other):
        if isinstance(other, GuardEdges):
            return GuardEdges(list(self) + list(other), self.preds + other.preds, self.plain + other.plain, self.present or other.present)
        return GuardEdges(list(self) + list(other), self.preds, self.plain + list(other), self.present or bool(other))

    def __radd__(self, other):
        return GuardEdges(list(other) + list(self), self.preds, list(other) + self.plain, self.present or bool(other))

    def __bool__(self):
        return bool(len(self)) or self.present


class _EffCond:
    """a condition as a predicate sees it: the effective expression of a switch (after following a stored verdict)"""

    def __init__(self, expr, ce=None):
        self.expr = expr
        is_bool = expr[0] != "discr"
        self.true_target = (ce.true_target if ce is not None and ce.true_target is not None else 1) if is_bool else None
        self.false_target = (ce.false_target if ce is not None and ce.false_target is not None else 2) if is_bool else None
        self.arms = list(ce.arms) if ce is not None else []
        self.otherwise = ce.otherwise if ce is not None else None
        self.cond = getattr(ce, "cond", None)
        self.bb = getattr(ce, "bb", None)

    def is_discr(self):
        return self.expr[0] == "discr"

    def target_for(self, v):
        for val, t in self.arms:
            if val == v:
                return t
        return self.otherwise


class FnCtx:
    """A function body with its expression builder and condition table."""

    def __init__(self, body, transparent=()):
        self.body = body
        self.mir = body.mir
        self.eb = E.ExprBuilder(self.mir, body, transparent)
        self.ces = E.cond_exprs(self.mir, body, self.eb)

    # ---- events
    def calls(self, *suffixes, pred=None):
        out = []
        for bb, t in self.mir.calls():
            if t.callee.indirect:
                continue
            if t.callee.is_(*suffixes) or (t.callee.trait and any(path_endswith(t.callee.trait + "::" + t.callee.method(), s) for s in suffixes)):
                if pred is None or pred(bb, t):
                    out.append((bb, t))
        return out

    def calls_through(self, fx, *suffixes, depth=3):
        """calls(...) plus calls to wrappers: functions of the analysed crates that call a matching function on every path from
        entry to return (a block of statements extracted into a helper keeps its meaning as an event)"""
        out = list(self.calls(*suffixes))
        have = {bb for bb, t in out}
        memo = fx.__dict__.setdefault("_must_call_memo", {})
        for bb, t in self.mir.calls():
            if bb in have or t.callee.indirect or t.callee.res_id not in fx.bodies:
                continue
            if must_call(fx, fx.bodies[t.callee.res_id], suffixes, memo, depth):
                out.append((bb, t))
        return out

    def calls_with_closures(self, fx, *suffixes):
        """calls(...) plus, for every call of this function that is handed a closure whose body makes a matching call
        (`opt.map(|i| i.update_state(..))`), that call: [(block, terminator of the outer or the direct call, inner call or None, closure ctx or None)]"""
        out = [(bb, t, None, None) for bb, t in self.calls(*suffixes)]
        for bb, t in self.mir.calls():
            if t.callee.indirect:
                continue
            for a in t.args:
                if a.place is None:
                    continue
                for d in self.mir.whole_defs(a.place.local):
                    if d[0] == "s" and d[3].rv is not None and d[3].rv.kind == "aggregate" and d[3].rv.agg.get("k") == "closure":
                        cb = fx.bodies.get(d[3].rv.agg["def"])
                        if cb is None or cb.mir is None:
                            continue
                        kf = FnCtx(cb)
                        for b2, t2 in kf.calls(*suffixes):
                            out.append((bb, t, t2, kf))
        out.sort(key=lambda x: x[0])      # position in the function, whichever way the call is made
        return out

    def calls_deep(self, fx, *suffixes, depth=2):
        """calls(...) plus calls to functions that are new with respect to the reference tree (see engine/vplib/inline.py) and
        whose body, closures or coroutine contain a matching call — for helpers that cannot be inlined (async fn)"""
        out = list(self.calls(*suffixes))
        have = {bb for bb, t in out}
        new = getattr(fx, "new_fn_ids", set())

        def contains(b, d):
            if d < 0:
                return False
            for x in [b] + fx.descendants(b):
                if x.mir is None:
                    continue
                fcx = FnCtx(x)
                if fcx.calls(*suffixes):
                    return True
                for bb2, t2 in x.mir.calls():
                    if not t2.callee.indirect and t2.callee.res_id in new and t2.callee.res_id != b.id and contains(fx.bodies[t2.callee.res_id], d - 1):
                        return True
            return False
        for bb, t in self.mir.calls():
            if bb in have or t.callee.indirect or t.callee.res_id not in new or t.callee.res_id not in fx.bodies:
                continue
            if contains(fx.bodies[t.callee.res_id], depth):
                out.append((bb, t))
        return out

    def arg(self, term, i):
        return self.eb.operand(term.args[i])

    def args(self, term):
        return [self.eb.operand(a) for a in term.args]

    def field_writes(self, adt_suffix, field):
        out = []
        for bb, i, s in self.mir.stmts():
            if s.kind == "assign" and s.lhs.proj and s.lhs.proj[-1][0] == "field":
                p = s.lhs.proj[-1]
                if p[4] == field and (adt_suffix is None or path_endswith(p[2], adt_suffix)):
                    out.append((bb, i, s))
        return out

    def aggregates(self, adt_suffix, variant=None):
        out = []
        for bb, i, s in self.mir.stmts():
            if s.kind == "assign" and s.rv.is_adt(adt_suffix, variant):
                out.append((bb, i, s))
        return out

    def rv_expr(self, stmt):
        return self.eb.rvalue(stmt.rv, 0)

    # ---- guards
    def guards(self, pred):
        """pred(CondExpr) -> 'true' | 'false' | int variant value | list of those | None"""
        edges = []
        for bb, ce in self.ces.items():
            r = pred(ce)
            if r is None:
                continue
            for x in (r if isinstance(r, (list, tuple)) else [r]):
                if x == "true":
                    t = ce.true_target
                elif x == "false":
                    t = ce.false_target
                else:
                    t = ce.target_for(x)
                if t is not None:
                    edges.append((bb, t))
        # the same decision stored in a bool first (tested later through the variable)
        present = bool(edges)
        if not present:
            for L, ds in self._tracked_bools().items():
                for d in ds:
                    de = self._def_expr(d)
                    while de[0] == "un" and de[1] == "Not":
                        de = de[2]
                    if de[0] == "const":
                        continue
                    try:
                        if pred(_EffCond(de)) is not None:
                            present = True
                    except Exception:
                        pass
        return GuardEdges(edges, [pred], (), present)

    def cmp_guards(self, pred):
        """pred(op, a, b) -> 'true'|'false'|None on normalised comparisons"""
        def p(ce):
            c = cmp_norm(ce.expr)
            if c is None or ce.true_target is None:
                return None
            r = pred(*c)
            if r is None:
                # `0 == x` is `x == 0`, `a < b` is `b > a`
                r = pred(SWAP[c[0]], c[2], c[1])
            return r
        return self.guards(p)

    def discr_arm(self, scrut_pred, value):
        """edges (bb, target) of discriminant switches whose scrutinee satisfies scrut_pred, for `value`"""
        def p(ce):
            if ce.expr[0] == "discr" and scrut_pred(ce.expr[1]):
                return value
            return None
        return self.guards(p)

    def discr_other_arms(self, scrut_pred, value):
        out = []
        for bb, ce in self.ces.items():
            if ce.expr[0] == "discr" and scrut_pred(ce.expr[1]):
                keep = ce.target_for(value)
                for s in self.mir.succ(bb):
                    if s != keep:
                        out.append((bb, s))
        return out

    def only_through(self, event_blocks, guard_edges, also_removed=()):
        preds = getattr(guard_edges, "preds", None)
        if preds:
            plain = list(getattr(guard_edges, "plain", [])) + list(also_removed)

            def gp(e, outcome, ce=None):
                fake = _EffCond(e, ce)
                for p in preds:
                    try:
                        r = p(fake)
                    except Exception:
                        r = None
                    if r is None:
                        continue
                    for x in (r if isinstance(r, (list, tuple)) else [r]):
                        if x == outcome:
                            return True
                return False
            return not self.reach_avoiding(event_blocks, gp, removed_edges=plain)
        r = self.mir.reachable(0, removed_edges=list(guard_edges) + list(also_removed))
        return not (r & set(event_blocks))

    def reachable_events(self, event_blocks, removed_edges=(), removed_blocks=()):
        r = self.mir.reachable(0, removed_edges=removed_edges, removed_blocks=removed_blocks)
        return [b for b in event_blocks if b in r]

    def must_accompany(self, a_block, b_blocks):
        """every entry->exit path through a_block also passes one of b_blocks"""
        m = self.mir
        before = a_block not in m.reachable(0, removed_blocks=b_blocks)
        if before or a_block in b_blocks:
            return True
        rets = set(m.return_blocks())
        after = not (m.reachable(a_block, removed_blocks=b_blocks) & rets)
        return after

    # ---- guard-free path search that sees through boolean variables
    def _tracked_bools(self):
        """bool locals with several whole definitions that some switch tests"""
        m = self.mir
        out = {}
        for bb, ce in self.ces.items():
            e = ce.expr
            if e[0] == "local" and not e[2] and m.locals[e[1]] == "bool":
                ds = m.whole_defs(e[1])
                if len(ds) > 1:
                    out[e[1]] = ds
        return out

    def _reach_plain(self, event_blocks, guard_pred, start, removed):
        """reach_avoiding without any stored-verdict tracking (fallback when the state space is too large)"""
        m = self.mir
        seen, st, found = {start}, [start], {}
        evset = set(event_blocks)
        while st:
            bb = st.pop()
            if bb in evset:
                found[bb] = [bb]
            term = m.blocks[bb].term
            for s in m.succ(bb):
                if (bb, s) in removed or s in seen:
                    continue
                if term.kind == "switch":
                    ce = self.ces[bb]
                    tt, ft = ce.true_target, ce.false_target
                    if tt is not None and (s == tt or s == ft) and tt != ft:
                        outs = ["true" if s == tt else "false"]
                    else:
                        outs = [v for v, t in ce.arms if t == s] + (["otherwise"] if s == ce.otherwise else [])
                    if any(guard_pred(ce.expr, o, ce) for o in outs):
                        continue
                seen.add(s)
                st.append(s)
        return found

    def _variant_defs(self, ds):
        """[(variant index, 'Option' | 'Result')] per definition when every definition of a local fixes its variant, else None"""
        if len(ds) < 2:
            return None
        out = []
        for d in ds:
            if d[0] == "s" and d[3].rv is not None and d[3].rv.kind == "aggregate" and d[3].rv.agg.get("k") == "adt" \
                    and d[3].rv.agg.get("vidx") is not None:
                # Option / Result, or a field-less enum of the crate that names a choice (`enum Level { Entity, Group, .. }`)
                out.append((d[3].rv.agg.get("vidx"), str(d[3].rv.agg.get("adt", "")).split("::")[-1]))
            elif d[0] == "t" and d[3].callee is not None and not d[3].callee.indirect and d[3].callee.method() == "from_residual" \
                    and "Result" in (d[3].dest_ty or self.mir.locals[d[3].dest.local] or ""):
                out.append((1, "Result"))
            else:
                return None
        return out

    def _def_expr(self, d):
        k, bb, i, obj = d
        if k == "t":
            return self.eb.call(obj, bb, 0)
        return self.eb.rvalue(obj.rv, 0)

    def reach_avoiding(self, event_blocks, guard_pred, start=0, const_bools=True, removed_edges=()):
        """Blocks of `event_blocks` reachable from `start` along paths that take no guard edge.
        guard_pred(expr, outcome) -> bool is asked for every switch edge with the *effective* condition
        (a switch on a bool variable is replaced by the expression last assigned to it on that path;
        constant assignments make the contradicting edge infeasible).  outcome: 'true' | 'false' | int.
        Returns {event_block: witness path (list of blocks)}."""
        from collections import deque
        m = self.mir
        removed = set(tuple(x) for x in removed_edges)
        tracked = self._tracked_bools()
        # only variables that can carry a guard are followed (others would only multiply states)
        relevant = {}
        for L, ds in tracked.items():
            keep = False
            for d in ds:
                de = self._def_expr(d)
                while de[0] == "un" and de[1] == "Not":
                    de = de[2]
                if de[0] == "const":
                    continue
                try:
                    if guard_pred(de, "true", None) or guard_pred(de, "false", None):
                        keep = True
                except Exception:
                    keep = True
            if const_bools and not keep:
                # `matches!(x, A | B)` lowers to a bool that is only assigned constants inside the arms of a switch on x:
                # following it lets the guard on x decide the later test of the bool
                exprs = []
                for d in ds:
                    de = self._def_expr(d)
                    while de[0] == "un" and de[1] == "Not":
                        de = de[2]
                    exprs.append(de)
                # (also when only some definitions are constants: `a && b && !c` stored in a bool is `false` on the short-circuit
                # paths and the last operand otherwise — the constant definitions are what prunes the infeasible continuation)
                # — but only in functions with few such variables: every mixed carrier multiplies the search states
                keep = all(x[0] == "const" for x in exprs) or (any(x[0] == "const" for x in exprs) and len(tracked) <= 6)
            if keep:
                relevant[L] = ds
        tracked = relevant
        # Option / Result valued carriers: `let r = if a { Some(x) } else { None }; if let Some(v) = r { .. }` — the later switch on
        # the discriminant of r follows the variant that was assigned on the path
        variants = {}
        payloads = {}
        for bb0, ce0 in self.ces.items():
            e0 = ce0.expr
            if e0[0] == "discr" and e0[1][0] == "local" and not e0[1][2] and e0[1][1] not in tracked:
                L = e0[1][1]
                ds = m.whole_defs(L)
                vs = self._variant_defs(ds)
                if vs is not None:
                    variants[L] = vs
                    tracked[L] = ds
            # switch on the payload of such a carrier (`if let Some(level) = verdict { match level { .. } }`)
            if e0[0] == "discr" and e0[1][0] == "local" and len(e0[1][2]) == 2 and str(e0[1][2][0]).startswith("as ") and e0[1][2][1] == "0":
                L = e0[1][1]
                ds = m.whole_defs(L)
                vs = self._variant_defs(ds)
                if vs is not None:
                    variants.setdefault(L, vs)
                    tracked.setdefault(L, ds)
                    pv = []
                    for d in ds:
                        inner = None
                        if d[0] == "s" and d[3].rv.ops and d[3].rv.ops[0].place is not None and not d[3].rv.ops[0].place.proj:
                            ids = m.whole_defs(d[3].rv.ops[0].place.local)
                            if len(ids) == 1 and ids[0][0] == "s" and ids[0][3].rv is not None and ids[0][3].rv.kind == "aggregate" \
                                    and ids[0][3].rv.agg.get("k") == "adt":
                                inner = ids[0][3].rv.agg.get("vidx")
                        pv.append(inner)
                    payloads[L] = pv
            # the same through `?`: switch on Try::branch(r) where r is such a carrier (a helper's Result, inlined, whose error
            # path must not be continued on the Continue arm)
            if e0[0] == "discr" and e0[1][0] == "call" and e0[1][1].endswith("Try::branch") and e0[1][2]:
                a0 = E.strip_casts(e0[1][2][0])
                if a0[0] == "local" and not a0[2] and a0[1] not in tracked:
                    ds = m.whole_defs(a0[1])
                    vs = self._variant_defs(ds)
                    if vs is not None:
                        variants[a0[1]] = vs
                        tracked[a0[1]] = ds
        defsite = {}
        for L, ds in tracked.items():
            for n, d in enumerate(ds):
                defsite.setdefault(d[1], []).append((d[0], d[2], L, n))
        # liveness of a carrier: its tag only matters in blocks from which a switch that tests it can still be reached;
        # elsewhere the tag is dropped, which merges states (a function with a dozen stored verdicts would otherwise multiply them)
        test_blocks = {}
        for bb0, ce0 in self.ces.items():
            e0 = ce0.expr
            L0 = None
            if e0[0] == "local" and not e0[2]:
                L0 = e0[1]
            elif e0[0] == "discr" and e0[1][0] == "local" and not e0[1][2]:
                L0 = e0[1][1]
            elif e0[0] == "discr" and e0[1][0] == "call" and e0[1][2]:
                a0 = E.strip_casts(e0[1][2][0])
                if a0[0] == "local" and not a0[2]:
                    L0 = a0[1]
            if L0 in tracked:
                test_blocks.setdefault(L0, set()).add(bb0)
        preds = m.preds()
        live = {}
        for L0, tb in test_blocks.items():
            seen_l, st_l = set(tb), list(tb)
            while st_l:
                x = st_l.pop()
                for p0 in preds.get(x, ()):
                    if p0 not in seen_l:
                        seen_l.add(p0)
                        st_l.append(p0)
            live[L0] = seen_l
        start_state = (start, ())
        prev = {start_state: None}
        q = deque([start_state])
        found = {}
        evset = set(event_blocks)
        budget = 250000
        while q:
            budget -= 1
            if budget < 0 and tracked:
                # too many combinations of stored verdicts: decide without following them (coarser, never unsound:
                # more paths are considered feasible)
                return self.reach_avoiding(event_blocks, guard_pred, start=start, const_bools=False, removed_edges=removed_edges) \
                    if const_bools else self._reach_plain(event_blocks, guard_pred, start, removed)
            st = q.popleft()
            bb, tags = st
            if bb in evset and bb not in found:
                path = []
                x = st
                while x is not None:
                    path.append(x[0])
                    x = prev[x]
                found[bb] = list(reversed(path))
            tagd = dict(tags)
            tdefs = defsite.get(bb, [])
            for (k, i, L, n) in sorted((t for t in tdefs if t[0] == "s"), key=lambda t: t[1]):
                tagd[L] = n
            term = m.blocks[bb].term
            for s in m.succ(bb):
                if removed and (bb, s) in removed:
                    continue
                tg = dict(tagd)
                for (k, i, L, n) in tdefs:
                    if k == "t":
                        tg[L] = n
                if term.kind == "switch":
                    ce = self.ces[bb]
                    e = ce.expr
                    tt, ft = ce.true_target, ce.false_target
                    feasible = True
                    if e[0] == "discr" and e[1][0] == "local" and not e[1][2] and e[1][1] in variants and e[1][1] in tagd:
                        v = variants[e[1][1]][tagd[e[1][1]]][0]
                        if v is not None and s != ce.target_for(v):
                            continue
                    if e[0] == "discr" and e[1][0] == "local" and len(e[1][2]) == 2 and e[1][1] in payloads and e[1][1] in tagd:
                        v = payloads[e[1][1]][tagd[e[1][1]]]
                        if v is not None and s != ce.target_for(v):
                            continue
                    if e[0] == "discr" and e[1][0] == "call" and e[1][1].endswith("Try::branch") and e[1][2]:
                        a1 = E.strip_casts(e[1][2][0])
                        if a1[0] == "local" and not a1[2] and a1[1] in variants and a1[1] in tagd:
                            v, ty = variants[a1[1]][tagd[a1[1]]]
                            if v is not None:
                                cf = v if ty == "Result" else 1 - v      # Ok -> Continue(0), Err -> Break(1); Some(1) -> Continue(0), None(0) -> Break(1)
                                if s != ce.target_for(cf):
                                    continue
                    if e[0] == "local" and not e[2] and e[1] in tagd and tt is not None:
                        de = self._def_expr(tracked[e[1]][tagd[e[1]]])
                        neg = False
                        while de[0] == "un" and de[1] == "Not":
                            de = de[2]
                            neg = not neg
                        if de[0] == "const":
                            val = bool(de[1]) != neg
                            if (s == tt) != val and tt != ft:
                                feasible = False
                        e = de
                        if neg:
                            tt, ft = ft, tt
                    if not feasible:
                        continue
                    if tt is not None and (s == tt or s == ft):
                        outcome = "true" if s == tt else "false"
                        outs = [outcome] if tt != ft else ["true", "false"]
                    else:
                        outs = [v for v, t in ce.arms if t == s]
                        if s == ce.otherwise:
                            outs.append("otherwise")
                            # two-variant scrutinee (Option / Result / bool-like) with one explicit arm:
                            # the otherwise edge is the other variant
                            if len(ce.arms) == 1 and ce.arms[0][0] in (0, 1) and ce.arms[0][1] != s:
                                outs.append(1 - ce.arms[0][0])
                    ambiguous = tt is not None and tt == ft
                    if not ambiguous and any(guard_pred(e, o, ce) for o in outs):
                        continue
                ns = (s, tuple(sorted((k2, v2) for k2, v2 in tg.items() if s in live.get(k2, ()))))
                if ns not in prev:
                    prev[ns] = st
                    q.append(ns)
        return found

    def show(self, e):
        return E.show(e, self.mir)

    def loc(self, line):
        return self.body.loc(line)


def must_call(fx, body, suffixes, memo, depth=3):
    """every entry -> return path of `body` passes a call matching `suffixes`, directly or through another such function"""
    key = (body.id, tuple(suffixes))
    if key in memo:
        return memo[key]
    memo[key] = False  # recursion guard
    if depth <= 0 or body.mir is None or not body.is_fn_like():
        return False
    fc = FnCtx(body)
    m = fc.mir
    ev = {bb for bb, t in fc.calls(*suffixes)}
    for bb, t in m.calls():
        if bb not in ev and not t.callee.indirect and t.callee.res_id in fx.bodies and t.callee.res_id != body.id:
            if must_call(fx, fx.bodies[t.callee.res_id], suffixes, memo, depth - 1):
                ev.add(bb)
    rets = set(m.return_blocks())
    ok = bool(ev) and not (m.reachable(0, removed_blocks=list(ev)) & rets)
    memo[key] = ok
    return ok


def leaf_defs(fc, e, depth=4):
    """the expressions a value can have: a local with several definitions (match arms, an Option verdict that is unwrapped later,
    the result of an inlined helper) is expanded into the definitions' expressions, `Some(x)` / `Ok(x)` followed by its payload
    projection is reduced to x, definitions that cannot flow along the projection (None for `as Some`) are dropped"""
    e0 = E.strip_casts(e)
    if depth <= 0:
        return [e0]
    if e0[0] == "local":
        ds = fc.mir.whole_defs(e0[1])
        if len(ds) > 1 or (len(ds) == 1 and e0[2]):
            out = []
            for d in ds:
                de = E.strip_casts(fc._def_expr(d))
                path = tuple(e0[2])
                if path and de[0] == "adt" and isinstance(path[0], str) and path[0].startswith("as "):
                    if de[2] != path[0][3:]:
                        continue                      # other variant: does not reach this projection
                    if len(path) > 1 and str(path[1]).isdigit() and int(path[1]) < len(de[3]):
                        de = de[3][int(path[1])]
                        path = path[2:]
                    else:
                        path = path[1:]
                if path:
                    de = E.with_path(de, path)
                out.extend(leaf_defs(fc, de, depth - 1))
            return out
    return [e0]


def all_comparisons(fc):
    """[(block, line, (op, a, b))] for every comparison of the function: branch conditions, comparisons stored in a bool, and
    calls to PartialEq / PartialOrd methods whose result is used as a value"""
    out, seen = [], set()
    m = fc.mir
    for sb, ce in fc.ces.items():
        c = cmp_norm(E.strip_casts(ce.expr))
        if c:
            out.append((sb, m.blocks[sb].term.line, c))
            seen.add(repr(c))
    for bb, i, s in m.stmts():
        if s.kind == "assign" and s.rv is not None and s.rv.kind == "binop" and s.rv.op in ("Eq", "Ne", "Lt", "Le", "Gt", "Ge"):
            c = cmp_norm(E.strip_casts(fc.rv_expr(s)))
            if c and repr(c) not in seen:
                out.append((bb, s.line, c))
                seen.add(repr(c))
    for bb, t in m.calls():
        if not t.callee.indirect and t.callee.method() in CMP_METHODS:
            c = cmp_norm(E.strip_casts(fc.eb.call(t, bb, 0)))
            if c and repr(c) not in seen:
                out.append((bb, t.line, c))
                seen.add(repr(c))
    return out


def not_member_pred(field, exclude=None):
    """guard predicate for "x is NOT among self.<field>": the false edge of any(..) / position(..).is_some() / find(..).is_some(),
    the true edge of position(..).is_none() / find(..).is_none()"""
    def pred(ce):
        e0 = E.strip_casts(ce.expr)
        if ce.true_target is None:
            return None
        coll, positive = None, True
        if E.is_call(e0, "Iterator::any") and e0[2]:
            coll = e0[2][0]
        elif e0[0] == "call" and e0[1].split("::")[-1] in ("is_some", "is_none") and e0[2]:
            inner = E.strip_casts(e0[2][0])
            if E.is_call(inner, "Iterator::position", "Iterator::find", "Iterator::rposition") and inner[2]:
                coll = inner[2][0]
                positive = e0[1].endswith("is_some")
        if coll is None or not E.mentions_field(coll, field) or (exclude and E.mentions_field(coll, exclude)):
            return None
        return "false" if positive else "true"
    return pred


def carrier_scenarios(fc):
    """For analyses that are not path sensitive: a stored verdict (a bool assigned constants, an Option / Result whose definitions
    fix the variant, also when it is tested through `?`) splits the function into scenarios, one per definition. In a scenario the
    blocks of the other definitions are removed and the switch that tests the verdict keeps only the matching edge. Every
    feasible path lies in exactly one scenario, so the union of the scenario results is the result for the function.
    Returns [(removed_blocks, removed_edges)] — [([], [])] when there is no stored verdict (at most one carrier is split)."""
    m = fc.mir
    for sb, ce in sorted(fc.ces.items()):
        e = ce.expr
        L, kind = None, None
        if e[0] == "local" and not e[2] and m.locals[e[1]] == "bool" and ce.true_target is not None:
            L, kind = e[1], "bool"
        elif e[0] == "discr" and e[1][0] == "local" and not e[1][2]:
            L, kind = e[1][1], "discr"
        elif e[0] == "discr" and e[1][0] == "call" and e[1][1].endswith("Try::branch") and e[1][2]:
            a = E.strip_casts(e[1][2][0])
            if a[0] == "local" and not a[2]:
                L, kind = a[1], "try"
        if L is None:
            continue
        ds = m.whole_defs(L)
        if len(ds) < 2:
            continue
        targets = []
        if kind == "bool":
            for d in ds:
                de = fc._def_expr(d)
                neg = False
                while de[0] == "un" and de[1] == "Not":
                    de, neg = de[2], not neg
                if de[0] != "const":
                    targets = None
                    break
                targets.append(ce.true_target if (bool(de[1]) != neg) else ce.false_target)
        else:
            vs = fc._variant_defs(ds)
            if vs is None:
                continue
            for v, ty in vs:
                if kind == "try":
                    v = v if ty == "Result" else 1 - v
                targets.append(ce.target_for(v))
        if not targets or any(t is None for t in targets):
            continue
        out = []
        for i, d in enumerate(ds):
            others = [x[1] for j, x in enumerate(ds) if j != i and x[1] != d[1]]
            edges = [(sb, s2) for s2 in m.succ(sb) if s2 != targets[i]]
            out.append((others, edges))
        return out
    return [([], [])]


def compared_param_fields(fc):
    """first-level field names of parameters that take part in an == / != comparison anywhere in the function (as a branch
    condition, or as a value stored in a bool first)"""
    exprs = [ce.expr for ce in fc.ces.values()]
    for bb, i, s in fc.mir.stmts():
        if s.kind == "assign" and s.rv is not None and s.rv.kind == "binop" and s.rv.op in ("Eq", "Ne"):
            exprs.append(fc.rv_expr(s))
    for bb, t in fc.mir.calls():
        if not t.callee.indirect and t.callee.method() in ("eq", "ne"):
            exprs.append(fc.eb.call(t, bb, 0))
    got = set()
    for e in exprs:
        c = cmp_norm(E.strip_casts(e))
        if c and c[0] in ("Ne", "Eq"):
            for x in (c[1], c[2]):
                x = E.strip_casts(x)
                if x[0] == "param" and x[2]:
                    got.add(x[2][0])
    return got


def variant_value(facts, adt_short, variant):
    a = facts.adt(adt_short)
    for i, v in enumerate(a["variants"]):
        if v["name"] == variant:
            return v["discr"] if v.get("discr") is not None else i
    raise AnchorError("variant %s::%s missing" % (adt_short, variant))


def adder(rep, body):
    def add(rule, desc, ok, detail="", line=None):
        return rep.add(rule, body.sname, desc, ok, detail, body.loc(line))
    return add


def closure_bodies_in(facts, fc, e):
    """bodies of closures passed as arguments to the calls occurring inside expression e"""
    out = []
    for s in E.walk(e):
        if s[0] == "call":
            t = fc.eb.terms.get(s[3])
            if t is None:
                continue
            for a in t.args:
                if a.place is None:
                    continue
                for d in fc.mir.whole_defs(a.place.local):
                    if d[0] == "s" and d[3].rv is not None and d[3].rv.kind == "aggregate" and d[3].rv.agg.get("k") == "closure":
                        b = facts.bodies.get(d[3].rv.agg["def"])
                        if b is not None and b not in out:
                            out.append(b)
    return out


def closure_env(parent_fc, kid):
    """{captured variable name: expression in the parent's terms} for closure body `kid` defined in parent_fc's function"""
    pm = parent_fc.mir
    ops = None
    for bb, i, s in pm.stmts():
        if s.kind == "assign" and s.rv is not None and s.rv.kind == "aggregate" and s.rv.agg.get("k") in ("closure", "coroutine", "coroutine_closure") \
                and s.rv.agg.get("def") == kid.id:
            ops = s.rv.ops
    if ops is None:
        return {}
    idx = {}
    km = kid.mir

    def scan(pl):
        if pl is None or pl.local != 1:
            return
        for p in pl.proj:
            if p[0] == "field":
                idx.setdefault(p[4], p[1])
                return
            if p[0] != "deref":
                return
    for bb, i, s in km.stmts():
        if s.kind != "assign" or s.rv is None:
            continue
        scan(s.rv.place)
        for o in (s.rv.ops or []):
            scan(o.place)
    for bb, t in km.calls():
        for a in t.args:
            scan(a.place)
    out = {}
    for name, i in idx.items():
        if isinstance(i, int) and i < len(ops):
            out[name] = parent_fc.eb.operand(ops[i])
    return out


def subst_captures(e, env):
    """replace references to captured variables (('param', 1, (name, ...)) in a closure body) by the parent's expression"""
    if not isinstance(e, tuple):
        return e
    if e and e[0] == "param" and e[1] == 1 and len(e) > 2 and e[2] and e[2][0] in env:
        return E.with_path(env[e[2][0]], e[2][1:]) if len(e[2]) > 1 else env[e[2][0]]
    return tuple(subst_captures(x, env) if isinstance(x, tuple) else x for x in e)


def field_adt(fc, op, field):
    """ADT (short name) that owns `field` in the place chain an operand derives from (chasing refs,
    copies, clones and Option payload projections through single-definition temporaries)."""
    from vplib.flow import is_transparent_call
    m = fc.mir
    if op.place is None:
        return None
    pl = op.place
    for _ in range(48):
        for p in pl.proj:
            if p[0] == "field" and p[4] == field:
                return short_ty(p[2])
        l = pl.local
        if m.is_arg(l):
            return None
        ds = m.whole_defs(l)
        if len(ds) != 1:
            return None
        k, bb, i, obj = ds[0]
        if k == "t":
            if is_transparent_call(obj) and obj.args and obj.args[0].place is not None:
                pl = obj.args[0].place
                continue
            return None
        rv = obj.rv
        if rv is None:
            return None
        if rv.kind in ("ref", "rawptr"):
            pl = rv.place
            continue
        if rv.kind in ("use", "cast") and rv.ops and rv.ops[0].place is not None:
            pl = rv.ops[0].place
            continue
        return None
    return None


def field_adt_defs(fc, op, field):
    """field_adt for a value with several definitions (a sender chosen by a `match` on a level): [(defining block, ADT or None)].
    A single-definition value yields one entry with block None."""
    from vplib.flow import is_transparent_call
    m = fc.mir
    if op.place is None:
        return [(None, None)]
    pl = op.place
    for _ in range(48):
        for p in pl.proj:
            if p[0] == "field" and p[4] == field:
                return [(None, short_ty(p[2]))]
        l = pl.local
        if m.is_arg(l):
            return [(None, None)]
        ds = m.whole_defs(l)
        if len(ds) > 1:
            out = []
            for k, bb, i, obj in ds:
                a = None
                if k == "s" and obj.rv is not None:
                    rv = obj.rv
                    pl2 = rv.place if rv.kind in ("ref", "rawptr") else (rv.ops[0].place if rv.kind in ("use", "cast") and rv.ops and rv.ops[0].place is not None else None)
                    if pl2 is not None:
                        class _Op:
                            place = pl2
                        a = field_adt(fc, _Op, field)
                out.append((bb, a))
            return out
        if len(ds) != 1:
            return [(None, None)]
        k, bb, i, obj = ds[0]
        if k == "t":
            if is_transparent_call(obj) and obj.args and obj.args[0].place is not None:
                pl = obj.args[0].place
                continue
            return [(None, None)]
        rv = obj.rv
        if rv is None:
            return [(None, None)]
        if rv.kind in ("ref", "rawptr"):
            pl = rv.place
            continue
        if rv.kind in ("use", "cast") and rv.ops and rv.ops[0].place is not None:
            pl = rv.ops[0].place
            continue
        return [(None, None)]
    return [(None, None)]


def is_ok_unit(e):
    return e[0] == "adt" and path_endswith(e[1], "Result") and e[2] == "Ok"


def waiter_success_sends(facts, rep, adt, field, guard, rule, desc):
    """Every `OneshotSender::send(Ok(..))` whose sender comes from the waiter list `adt.field` (or is the
    function's own sender parameter that is otherwise pushed onto that list) must be unreachable
    without a guard edge (guard(expr, outcome, ce) as for FnCtx.reach_avoiding)."""
    n = 0
    for b in facts.bodies.values():
        if not b.is_fn_like() or not b.touches_field(adt, field):
            continue
        fc = FnCtx(b)
        sends = []
        for bb, t in fc.calls("OneshotSender::send"):
            if len(t.args) == 2 and is_ok_unit(fc.arg(t, 1)):
                recv = fc.arg(t, 0)
                from_list = E.mentions_field(recv, field)
                stored = False
                if recv[0] == "param":
                    for b2, t2 in fc.calls("Vec::push"):
                        if E.mentions_field(fc.arg(t2, 0), field) and E.same(fc.arg(t2, 1), recv):
                            stored = True
                if from_list or stored:
                    sends.append((bb, t))
        found = fc.reach_avoiding([bb for bb, _ in sends], guard)
        for bb, t in sends:
            n += 1
            rep.add(rule, b.sname, desc, bb not in found,
                    "success reachable without the required test; witness blocks %s" % (found.get(bb),), b.loc(t.line))
    return n


def nonempty_range_exit_edges(fc):
    """For `for x in a..n` loops whose range is provably non-empty at loop entry (interval analysis of
    the branch conditions on n), the edges (switch-block -> None-target) that leave the loop: with the
    loop body's events removed, such an edge can only be taken by the infeasible zero-iteration path."""
    from vplib.intervals import SubjectAnalysis
    out = []
    m = fc.mir
    for bb, t in fc.calls("Iterator::next"):
        it = fc.arg(t, 0)
        it = E.strip_casts(it)
        if not (it[0] == "adt" and it[1].endswith("ops::Range") and len(it[3]) == 2 and not it[4]):
            continue
        start, end = it[3]
        if start[0] != "const":
            continue
        end_s = E.strip_casts(end)
        ana = SubjectAnalysis(m, lambda e, end_s=end_s: E.same(e, end_s), body=fc.body, eb=fc.eb)
        # the loop head is entered (first time) from outside the loop: use the state at the head
        st = ana.at(bb)
        if st.is_empty() or st.min() is None or st.min() <= start[1]:
            continue
        for sb, ce in fc.ces.items():
            if ce.expr[0] == "discr" and ce.expr[1][0] == "call" and ce.expr[1][3] == bb and not ce.expr[1][4]:
                out.append((sb, ce.target_for(0)))
    return out
