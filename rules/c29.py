"""C29 — Expired samples (lifespan) are never delivered (two mechanisms only; timing not decided).

R29a  DataWriterEntity::write_w_timestamp hands a sample to the RTPS writer (add_change) only when the
      lifespan is infinite or `timestamp - now + lifespan > 0`
R29b  remove_stale_writer_samples keeps exactly the changes with `timestamp + lifespan > now` (changes
      without timestamp are kept) and only acts for a finite lifespan; the worker calls it on every
      iteration and time_until_stale_writer_sample takes part in the sleep computation (checked with C31)
Whether a repair can race the purge by a few milliseconds is a timing question and is not decided.
"""
from vplib import expr as E
from vplib.facts import Place
from rules.common import FnCtx, cmp_norm, adder, variant_value

TECHNIQUE = "guard-free path search for add_change; closure predicate shape of the purge; worker-loop coverage"
ASSUMPTIONS = ["Clock::now() is monotone"]


def run(ctx, rep):
    fx = ctx.facts
    b = fx.fn("DataWriterEntity", "write_w_timestamp")
    fc = FnCtx(b)
    add = adder(rep, b)
    adds = [bb for bb, t in fc.calls("add_change")]
    rep.floor("R29a", len(adds), 1, "add_change calls in DataWriterEntity::write_w_timestamp")
    fin = variant_value(fx, "DurationKind", "Finite")

    def guard(e, outcome, ce):
        if e[0] == "discr" and E.mentions_field(e[1], "lifespan"):
            return outcome != fin and outcome != "otherwise" or (outcome == "otherwise" and ce is not None and all(v == fin for v, _ in ce.arms))
        c = cmp_norm(E.strip_casts(e))
        if c:
            op, x, y = c
            zero_r = E.is_call(E.strip_casts(y), "Duration::new") and all(a == ("const", 0) for a in E.strip_casts(y)[2])
            zero_l = E.is_call(E.strip_casts(x), "Duration::new") and all(a == ("const", 0) for a in E.strip_casts(x)[2])
            if zero_r and E.mentions_field(x, "as Finite"):
                return (op in ("Le", "Lt") and outcome == "false") or (op in ("Gt",) and outcome == "true")
            if zero_l and E.mentions_field(y, "as Finite"):
                return (op in ("Ge", "Gt") and outcome == "false") or (op in ("Lt",) and outcome == "true")
        return False
    found = fc.reach_avoiding(adds, guard)
    for bb in adds:
        add("R29a", "add_change only for samples that are not already expired", bb not in found,
            "a sample whose lifespan has already elapsed at write time is handed to the RTPS writer; witness %s" % found.get(bb))
    # the expiry computation uses timestamp, now and the lifespan
    ok = False
    from rules.common import all_comparisons
    for sb, cline, c in all_comparisons(fc):
        if c and (E.mentions_field(c[1], "as Finite") or E.mentions_field(c[2], "as Finite")):
            x = c[1] if E.mentions_field(c[1], "as Finite") else c[2]
            ok = E.mentions_local_named(fc.mir, x, "sample_timestamp") and E.mentions_local_named(fc.mir, x, "now")
    add("R29a", "expiry = sample_timestamp - now + lifespan", ok, "the tested duration does not combine sample_timestamp, now and lifespan")
    # R29b
    r = fx.fn("DcpsDomainParticipant", "remove_stale_writer_samples")
    rf = FnCtx(r)
    addr = adder(rep, r)
    ret = [bb for bb, t in rf.calls("Vec::retain")]
    g = rf.guards(lambda ce: fin if (ce.expr[0] == "discr" and E.mentions_field(ce.expr[1], "lifespan")) else None)
    addr("R29b", "purge acts only for a finite lifespan", bool(ret) and bool(g) and rf.only_through(ret, g), "retain not guarded by DurationKind::Finite(lifespan)")
    okp = False
    for k in fx.descendants(r):
        if k.kind.startswith("Const") or k.kind.startswith("Static"):
            continue
        kf = FnCtx(k)
        for sb2, cline2, c in all_comparisons(kf):
            e = ("bin", c[0], c[1], c[2])
            if c:
                op, x, y = c
                if E.is_call(E.strip_casts(y), "Add::add") and E.mentions_field(y, "lifespan") and not E.mentions_field(x, "lifespan"):
                    # `now < t + lifespan` is `t + lifespan > now`
                    op, x, y = {"Lt": "Gt", "Gt": "Lt", "Le": "Ge", "Ge": "Le"}.get(op, op), y, x
                lhs_ok = E.is_call(E.strip_casts(x), "Add::add") and E.mentions_field(x, "lifespan")
                if lhs_ok and op == "Gt" and E.mentions_field(y, "now"):
                    okp = True
                elif lhs_ok or E.mentions_field(y, "lifespan"):
                    adder(rep, k)("R29b", "kept iff timestamp + lifespan > now", False, "predicate is %s" % kf.show(e)[:100])
    addr("R29b", "kept iff timestamp + lifespan > now", okp, "no such retain predicate")
    rep.floor("R29b", len(ret), 1, "retain calls in remove_stale_writer_samples")
    # R29c: the purge pass reaches every writer: the loops around the retain have no exit other than their iterator running out
    # (a `return` / `break` for a writer with an infinite lifespan would skip all writers after it)
    m = rf.mir
    loops = m.natural_loops()
    rets = set(m.return_blocks())
    nl = 0
    for rb in ret:
        for h, body in loops.items():
            if rb not in body:
                continue
            nl += 1
            # the iterator's own exit: the None arm of the switch on the `next()` result inside this loop
            own = set()
            for sb, ce in rf.ces.items():
                if sb in body and ce.is_discr() and E.is_call(E.strip_casts(ce.expr[1]), "Iterator::next"):
                    tgt = ce.target_for(0)
                    if tgt is not None and tgt not in body:
                        own.add((sb, tgt))
            exits = [(x, t) for x in sorted(body) for t in m.succ(x) if t not in body and (x, t) not in own and (m.reachable(t) & rets)]
            addr("R29c", "the purge loop over writers / publishers has no early exit", not exits,
                 "%d edge(s) leave the loop before every writer was visited (lines %s): writers after the first one with an infinite lifespan keep their expired samples"
                 % (len(exits), sorted({m.blocks[x].term.line for x, t in exits})), m.blocks[h].term.line)
    rep.floor("R29c", nl, 1, "loops around the lifespan purge")
