"""C21 — BY_SOURCE_TIMESTAMP readers keep the sample list ordered by source timestamp (structural).

R21a  the index given to Vec::insert on sample_list derives, on every path, from the list itself
      (search result or len()); a constant default cannot keep a list sorted for all arrival orders
R21b  the search predicate is `stored.source_timestamp > new.source_timestamp` (stable for equal stamps)
R21c  positional insert only on the BySourceTimestamp arm, plain append only on ByReceptionTimestamp
"""
from rules import reader_entity as RE

TECHNIQUE = "MIR provenance of the insert index + closure predicate shape + arm dominance"
ASSUMPTIONS = ["sample_list is only appended/inserted by add_reader_change (checked by C19 who-may-insert)"]


def run(ctx, rep):
    n, p = RE.c21(ctx.facts, rep)
    rep.floor("R21a", n, 1, "positional inserts into sample_list")
    rep.floor("R21c", p, 1, "appends to sample_list")
    # R21e: the order samples were inserted with is the order the reader reports: destination_order cannot be changed on an
    # enabled reader (a history built in reception order would otherwise be extended by sorted inserts)
    from vplib import expr as E
    from rules.common import FnCtx, cmp_norm
    fx = ctx.facts
    k = 0
    for b in fx.bodies.values():
        if b.kind == "AssocFn" and b.item_name == "check_immutability" and (b.impl_self or "").endswith("DataReaderQos"):
            k += 1
            fc = FnCtx(b)
            from rules.common import compared_param_fields
            got = compared_param_fields(fc)
            rep.add("R21e", b.sname, "destination_order is immutable on an enabled reader", "destination_order" in got,
                    "DataReaderQos::check_immutability does not compare destination_order: set_qos can switch an enabled reader to BY_SOURCE_TIMESTAMP and later samples are sorted into a history that is not sorted", b.loc())
    rep.floor("R21e", k, 1, "DataReaderQos::check_immutability")
