"""C21 — BY_SOURCE_TIMESTAMP readers keep the sample list ordered by source timestamp (structural).

R21a  the index given to Vec::insert on sample_list derives, on every path, from the list itself
      (search result or len()); a constant default cannot keep a list sorted for all arrival orders
R21b  the search predicate is `stored.source_timestamp > new.source_timestamp` (stable for equal stamps)
R21c  positional insert only on the BySourceTimestamp arm, plain append only on ByReceptionTimestamp
"""
from rules import reader_entity as RE

TECHNIQUE = "MIR provenance of the insert index + closure predicate shape + arm dominance"
ASSUMPTIONS = ["sample_list is only appended/inserted by add_reader_change (checked by C19 who-may-insert)"]


def run(ctx, rep):
    n, p = RE.c21(ctx.facts, rep)
    rep.floor("R21a", n, 1, "positional inserts into sample_list")
    rep.floor("R21c", p, 1, "appends to sample_list")
