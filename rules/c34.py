"""C34 — Worker channels never lose values or wake-ups (per-operation pairing rules).

With every access to channel state inside a `critical_section::with` closure, operations are atomic,
so "for every interleaving" reduces to rules about each operation's closure:
R34a  who-may-touch: fields of OneshotInner / MpscInner / NotificationInner are accessed only inside
      closures handed to critical_section::with (reviewed exception: Debug for MpscInner)
R34b  a poll returns Poll::Pending only after storing cx.waker() in the `waker` field
R34c  every sender-side write of a receiver-visible field (data, has_sender, is_closed, notified,
      sender_count) is followed in the same closure by waker.take() and wake() on the Some edge
      (exception: the `sender_count != 0` edge after a decrement; increments are exempt)
R34d  poll tests "value available" before "disconnected" (a value sent just before drop is delivered)
R34e  FIFO: MpscInner::data is only ever push_back'ed and pop_front'ed
R34f  OneshotSender::send consumes the sender (exactly-once by ownership)
"""
from vplib import expr as E
from vplib.facts import path_endswith, short_ty
from rules.common import FnCtx, cmp_norm, adder

TECHNIQUE = "who-may-touch over field accesses + per-closure must-precede / must-follow path rules on MIR"
ASSUMPTIONS = ["critical_section::with provides mutual exclusion between threads"]

INNER = ("OneshotInner", "MpscInner", "NotificationInner")
VISIBLE = ("data", "has_sender", "is_closed", "notified", "sender_count")
REVIEWED_OUTSIDE = {"fmt": "Debug for MpscInner: called with a shared reference obtained under the lock"}


def touches_inner(b):
    return any(short_ty(a) in INNER for a, f in b.sum_fields)


def cs_closures(facts):
    """closure bodies passed to critical_section::with -> creator body"""
    out = {}
    for b in facts.bodies.values():
        if not b.is_fn_like() or not b.calls_any("critical_section::with"):
            continue
        fc = FnCtx(b)
        for bb, t in fc.calls("critical_section::with"):
            for a in t.args:
                e = fc.eb.operand(a)
                if e[0] == "agg" and e[1] == "closure":
                    if a.place is not None:
                        for d in fc.mir.whole_defs(a.place.local):
                            if d[0] == "s" and d[3].rv.kind == "aggregate":
                                out[d[3].rv.agg.get("def")] = b
    return out


def field_of(e):
    """last field name of a place-like expression"""
    if e[0] in ("param", "local") and e[2]:
        return e[2][-1]
    if e[0] == "call" and e[4]:
        return e[4][-1]
    if e[0] == "proj" and e[2]:
        return e[2][-1]
    return None


def waker_store_blocks(fc):
    out = []
    for bb, t in fc.calls("Option::replace", "Option::insert", "Option::get_or_insert"):
        if field_of(fc.arg(t, 0)) == "waker" and E.mentions_call(fc.arg(t, 1), "Context::waker"):
            out.append(bb)
    for bb, i, s in fc.field_writes(None, "waker"):
        e = fc.rv_expr(s)
        if e[0] == "adt" and e[2] == "Some" and E.mentions_call(e, "Context::waker"):
            out.append(bb)
    return out


def check_poll(fc, add):
    m = fc.mir
    pend = fc.aggregates("Poll", "Pending")
    stores = waker_store_blocks(fc)
    for bb, i, s in pend:
        add("R34b", "Poll::Pending only after storing cx.waker()", bb not in m.reachable(0, removed_blocks=stores),
            "a path returns Pending without registering the waker: a later send cannot wake the receiver (lost wake-up)", s.line)
    # R34d: disconnected result only after the value test failed
    def neg_value(ce):
        e = ce.expr
        if e[0] == "discr":
            sc = e[1]
            if sc[0] == "call" and (E.is_call(sc, "Option::take", "VecDeque::pop_front")) and sc[2] and field_of(sc[2][0]) == "data":
                return 0
        if e[0] in ("param", "local", "call", "proj") and field_of(e) == "notified":
            return "false"
        return None
    g = fc.guards(neg_value)
    nd = 0
    for bb, i, s in fc.aggregates("Poll", "Ready"):
        e = fc.rv_expr(s)
        payload = e[3][0] if e[3] else None
        disconnected = payload is not None and payload[0] == "adt" and payload[2] in ("Err", "None")
        if disconnected:
            nd += 1
            add("R34d", "disconnected is reported only after the value test failed", bool(g) and fc.only_through([bb], g),
                "poll can report disconnection although a value is available (a value sent just before the sender was dropped is lost)", s.line)
    # value taken exactly once: the Ready(value) path takes it out of the shared state
    return len(pend), nd


def visible_writes(fc):
    out = []
    for f in VISIBLE:
        for bb, i, s in fc.field_writes(None, f):
            out.append((bb, f, s.line, fc.rv_expr(s)))
    for bb, t in fc.calls("Option::replace", "Option::insert", "VecDeque::push_back", "VecDeque::push_front"):
        if field_of(fc.arg(t, 0)) == "data":
            out.append((bb, "data", t.line, None))
    return out


def check_sender(fc, add, creator):
    m = fc.mir
    takes = [(bb, t) for bb, t in fc.calls("Option::take") if field_of(fc.arg(t, 0)) == "waker"]
    take_blocks = [bb for bb, _ in takes]
    wakes = [bb for bb, t in fc.calls("Waker::wake", "Waker::wake_by_ref")]
    rets = set(m.return_blocks())
    n = 0
    # edges exempt after a sender_count decrement: false edge of `sender_count == 0`
    def exempt(op, a, b):
        if field_of(E.strip_casts(a)) == "sender_count" and b == ("const", 0):
            return {"Eq": "false", "Ne": "true", "Gt": "true"}.get(op)
        return None
    ex_edges = fc.cmp_guards(exempt)
    for bb, f, line, val in visible_writes(fc):
        n += 1
        if f == "sender_count" and val is not None and val[0] == "bin" and val[1] == "Add":
            add("R34c", "sender_count increment needs no wake-up", True, "", line)
            continue
        edges = ex_edges if f == "sender_count" else []
        r = m.reachable(bb, removed_blocks=take_blocks, removed_edges=edges)
        escapes = bool(r & rets) and bb not in take_blocks
        add("R34c", "write of receiver-visible field `%s` is followed by waker.take()" % f, not escapes,
            "a path from the write to the end of the critical section skips waker.take(): a receiver parked on this channel is never woken", line)
    for bb, t in takes:
        some = None
        for sb, ce in fc.ces.items():
            if ce.expr[0] == "discr" and ce.expr[1][0] == "call" and ce.expr[1][3] == bb and not ce.expr[1][4]:
                some = ce.target_for(1)
        ok = some is not None and not (m.reachable(some, removed_blocks=wakes) & rets)
        add("R34c", "taken waker is woken", ok, "waker.take() returns Some but wake() is not called on every path", t.line)
    return n


def run(ctx, rep):
    fx = ctx.facts
    cs = cs_closures(fx)
    npoll = nsend = 0
    ntouch = 0
    npend = ndisc = 0
    for b in fx.bodies.values():
        if not b.is_fn_like() or not touches_inner(b):
            continue
        ntouch += 1
        inside = b.id in cs
        reviewed = (not inside) and b.item_name in REVIEWED_OUTSIDE and (b.impl_self or "").find("MpscInner") >= 0
        rep.add("R34a", b.sname, "channel state touched only inside critical_section::with", inside or reviewed,
                "fields of %s accessed outside a critical section closure" % sorted({short_ty(a) for a, f in b.sum_fields if short_ty(a) in INNER}), b.loc())
        if not inside:
            continue
        creator = cs[b.id]
        fc = FnCtx(b)
        add = adder(rep, b)
        if creator.item_name == "poll":
            ncs = len(FnCtx(creator).calls("critical_section::with"))
            rep.add("R34b", creator.sname, "poll tests for a value and registers the waker in ONE critical section", ncs == 1,
                    "poll uses %d critical sections: a send between the value test and the waker registration is neither seen nor able to wake the receiver (lost wake-up)" % ncs,
                    creator.loc())
            stores = waker_store_blocks(fc)
            if stores:
                def neg_value(ce):
                    e = ce.expr
                    if e[0] == "discr":
                        sc = e[1]
                        if sc[0] == "call" and E.is_call(sc, "Option::take", "VecDeque::pop_front") and sc[2] and field_of(sc[2][0]) == "data":
                            return 0
                    if e[0] in ("param", "local", "call", "proj") and field_of(e) == "notified":
                        return "false"
                    return None
                g = fc.guards(neg_value)
                add("R34b", "waker is registered only after the value test failed in the same critical section",
                    bool(g) and fc.only_through(stores, g),
                    "the closure stores the waker without having tested for an available value itself (check-then-register is not atomic)")
            p, d = check_poll(fc, add)
            npoll += 1
            npend += p
            ndisc += d
        else:
            nsend += check_sender(fc, add, creator)
    rep.floor("R34a", ntouch, 9, "bodies touching channel state")
    rep.floor("R34b", npoll, 3, "poll closures (oneshot, mpsc, notification)")
    # Pending built outside the closures (in the poll body itself) still counts
    for b in fx.bodies.values():
        if b.kind == "AssocFn" and b.item_name == "poll" and b.file.endswith(("oneshot.rs", "mpsc.rs", "notification.rs")):
            npend += len(FnCtx(b).aggregates("Poll", "Pending"))
    rep.floor("R34b-pending", npend, 3, "Poll::Pending constructions in channel polls")
    rep.floor("R34d", ndisc, 3, "disconnected results in channel polls")
    rep.floor("R34c", nsend, 6, "sender-side writes of receiver-visible fields")
    # R34e FIFO
    allowed = ("VecDeque::push_back", "VecDeque::pop_front", "VecDeque::len")
    nq = 0
    for b in fx.bodies.values():
        if b.is_fn_like() and b.touches_field("MpscInner", "data"):
            fc = FnCtx(b)
            for bb, t in fc.mir.calls():
                if t.callee.indirect or not t.args:
                    continue
                a0 = fc.arg(t, 0)
                if field_of(a0) == "data" and (t.callee.best_name() or "").find("VecDeque") >= 0:
                    nq += 1
                    rep.add("R34e", b.sname, "queue mutated only by push_back / pop_front", t.callee.is_(*allowed),
                            "%s on the message queue breaks FIFO order" % t.callee.best_name(), b.loc(t.line))
    rep.floor("R34e", nq, 2, "VecDeque operations on MpscInner::data")
    # R34f
    s = fx.fn("OneshotSender", "send")
    rep.add("R34f", s.sname, "OneshotSender::send takes self by value", bool(s.inputs) and not s.inputs[0].startswith("&"),
            "send takes %s: a sender could be used twice" % (s.inputs[0] if s.inputs else "?"), s.loc())
    # oneshot value handed out with take()
    p = [b for b in fx.bodies.values() if b.id in cs and cs[b.id].item_name == "poll" and b.touches_field("OneshotInner", "data")]
    for b in p:
        fc = FnCtx(b)
        ok = any(field_of(fc.arg(t, 0)) == "data" for bb, t in fc.calls("Option::take"))
        rep.add("R34f", b.sname, "one-shot value is taken out when delivered", ok, "value is read without Option::take (could be delivered twice)", b.loc())
