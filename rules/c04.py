"""C04 — Durability: late TRANSIENT_LOCAL readers get history, VOLATILE readers do not (structural).

R04a  RtpsStatefulWriter::add_matched_reader: the proxy's first_relevant_sample_seq_num is the highest
      sequence number in the cache on the Volatile arm and 0 on every other arm
R04b  EVERY construction of a DATA / DATA_FRAG for a reader proxy in the stateful writer
      (reliable first send, reliable repair, best-effort send, NACK_FRAG resend) is behind
      seq > first_relevant_sample_seq_num
R04c  wait_for_historical_data succeeds only through is_historical_data_received()==true, and a
      VOLATILE reader is answered IllegalOperation
R04d  is_historical_data_received requires a received heartbeat and no missing changes
Catch-up under loss is not decided (see C01).
"""
from vplib import expr as E
from vplib.facts import path_endswith, Place
from rules import rtps_core as R
from rules.common import FnCtx, cmp_norm, adder, variant_value, waiter_success_sends

TECHNIQUE = "MIR provenance per match arm, guard dominance (incl. find-closure conjuncts), guard-free path search for waiter success"
ASSUMPTIONS = ["first_relevant_sample_seq_num is the only mechanism hiding history from a proxy"]


def first_relevant_provenance(facts, body, add):
    fc = FnCtx(body)
    m = fc.mir
    news = fc.calls("RtpsReaderProxy::new")
    n = 0
    vol = variant_value(facts, "DurabilityKind", "Volatile")
    for bb, t in news:
        # parameter named first_relevant_sample_seq_num of RtpsReaderProxy::new
        target = facts.fn("RtpsReaderProxy", "new")
        names = [nm for nm, p in target.mir.names if p.is_local() and target.mir.is_arg(p.local)]
        idx = None
        for nm, p in target.mir.names:
            if nm == "first_relevant_sample_seq_num" and p.is_local() and target.mir.is_arg(p.local):
                idx = p.local - 1
        if idx is None:
            add("R04a", "RtpsReaderProxy::new has a first_relevant_sample_seq_num parameter", False, "parameter not found")
            continue
        op = t.args[idx]
        e = fc.eb.operand(op)
        if e[0] != "local":
            # single expression: must depend on durability
            add("R04a", "first relevant sample chosen per durability kind", False,
                "first_relevant_sample_seq_num is %s on every path (no per-durability choice)" % fc.show(e), t.line)
            continue
        L = e[1]
        arms = None
        for sb, ce in fc.ces.items():
            if ce.expr[0] == "discr" and E.mentions_field(ce.expr[1], "durability_kind"):
                arms = ce
        if arms is None:
            add("R04a", "switch on the reader's durability kind", False, "no discriminant switch on durability_kind", t.line)
            continue
        vol_t = arms.target_for(vol)
        others = [tb for v, tb in arms.arms if tb != vol_t] + ([arms.otherwise] if arms.otherwise != vol_t else [])
        for d in m.whole_defs(L):
            dbb = d[1]
            de = fc._def_expr(d)
            from_vol = dbb in m.reachable(vol_t, removed_blocks=[x for x in others if x != vol_t])
            from_oth = any(dbb in m.reachable(o, removed_blocks=[vol_t]) for o in others if not m.blocks[o].term.kind == "unreachable")
            n += 1
            if from_vol and not from_oth:
                ok = E.mentions_field(de, "changes") and E.mentions_call(de, "Iterator::max")
                add("R04a", "Volatile arm: first relevant = highest sequence number in the cache", ok,
                    "Volatile arm assigns %s" % fc.show(de)[:160], t.line)
            elif from_oth and not from_vol:
                add("R04a", "non-volatile arms: first relevant = 0 (whole history relevant)", de == ("const", 0),
                    "TransientLocal/Transient/Persistent arm assigns %s" % fc.show(de)[:160], t.line)
            else:
                add("R04a", "definition of first relevant belongs to exactly one durability arm", False,
                    "assignment %s is shared between the Volatile and the other arms" % fc.show(de)[:120], t.line)
    return n


def historical_oracle(facts, rep):
    b = facts.fn("RtpsWriterProxy", "is_historical_data_received")
    fc = FnCtx(b)
    add = adder(rep, b)
    # returns true only through  last_received_heartbeat_count > 0  and  missing_changes().count() == 0
    def hb(op, a, c):
        if E.mentions_field(a, "last_received_heartbeat_count") and c == ("const", 0):
            return {"Gt": "true", "Ne": "true", "Le": "false", "Eq": "false"}.get(op)
        return None
    def miss(op, a, c):
        if E.mentions_call(a, "RtpsWriterProxy::missing_changes") and c == ("const", 0):
            return {"Eq": "true", "Ne": "false", "Gt": "false"}.get(op)
        return None
    ret = fc.eb.place(Place([0, []]))
    txt = fc.show(ret)
    # value form: `a && b` on a local -> look at defs of _0 / the tracked local
    exprs = []
    for d in fc.mir.whole_defs(0):
        exprs.append(fc._def_expr(d))
    flat = []
    for e in exprs:
        if e[0] == "local":
            for d in fc.mir.whole_defs(e[1]):
                flat.append((d, fc._def_expr(d)))
        else:
            flat.append((None, e))
    has_hb = any(cmp_norm(s) and hb(*cmp_norm(s)) == "true" for _, e in flat for s in E.walk(e)) or bool(fc.cmp_guards(hb))
    has_miss = any(cmp_norm(s) and miss(*cmp_norm(s)) == "true" for _, e in flat for s in E.walk(e)) or bool(fc.cmp_guards(miss))
    add("R04d", "requires last_received_heartbeat_count > 0", has_hb, "no such conjunct (returns %s)" % txt[:160])
    add("R04d", "requires missing_changes().count() == 0", has_miss, "no such conjunct (returns %s)" % txt[:160])
    # reader level: all proxies
    r = facts.fn("RtpsStatefulReader", "is_historical_data_received")
    rf = FnCtx(r)
    ret = rf.eb.place(Place([0, []]))
    neg = 0
    e = ret
    while e[0] == "un" and e[1] == "Not":
        e = e[2]
        neg += 1
    kids = facts.closure_of(r)
    inner_neg = False
    for k in kids:
        kf = FnCtx(k)
        kr = kf.eb.place(Place([0, []]))
        if kr[0] == "un" and kr[1] == "Not" and E.is_call(kr[2], "RtpsWriterProxy::is_historical_data_received"):
            inner_neg = True
    ok = (neg == 1 and E.is_call(e, "Iterator::any") and inner_neg) or (neg == 0 and E.is_call(e, "Iterator::all") and not inner_neg and any(k.calls_any("RtpsWriterProxy::is_historical_data_received") for k in kids))
    adder(rep, r)("R04d", "reader-level test = all matched writer proxies have their history", ok, "shape is %s" % rf.show(ret)[:160])


def run(ctx, rep):
    fx = ctx.facts
    b = fx.fn("RtpsStatefulWriter", "add_matched_reader")
    n = first_relevant_provenance(fx, b, adder(rep, b))
    rep.floor("R04a", n, 2, "per-durability definitions of first_relevant_sample_seq_num")
    total = 0
    for (ty, name) in (("RtpsReaderProxy", "write_message_reliable"), ("RtpsReaderProxy", "write_message_best_effort"),
                       ("RtpsStatefulWriter", "on_nack_frag_submessage_received")):
        fb = fx.fn(ty, name)
        total += R.sends_guarded_by_first_relevant(fx, fb, adder(rep, fb), "R04b")
    # any other function of the crate building DATA for a reader proxy is reported as unreviewed
    known = {"write_message_reliable", "write_message_best_effort", "on_nack_frag_submessage_received"}
    for ob in fx.bodies.values():
        if ob.is_fn_like() and ob.calls_any("CacheChange::as_data_submessage", "CacheChange::as_data_frag_submessage",
                                           "rtps::cache_change::as_data_submessage", "rtps::cache_change::as_data_frag_submessage"):
            root = ob
            while root.parent in fx.bodies:
                root = fx.bodies[root.parent]
            if root.item_name not in known and "stateless_writer" not in root.file:
                total += R.sends_guarded_by_first_relevant(fx, ob, adder(rep, ob), "R04b")
    rep.floor("R04b", total, 7, "DATA / DATA_FRAG constructions for reader proxies")
    # R04e: the history a late TRANSIENT_LOCAL reader receives is the most recent `depth` samples: every KEEP_LAST eviction in
    # the DCPS writer removes the oldest sample of the instance (pop_front), on the direct and on the deferred write path alike
    ev = 0
    for ob in fx.bodies.values():
        if not ob.is_fn_like() or "::tests::" in ob.sname or not ob.sum_calls:
            continue
        if not any(x.endswith(("VecDeque::pop_front", "VecDeque::pop_back")) for x in ob.sum_calls):
            continue
        if "data_writer_entity" not in ob.sname and "writer_methods" not in ob.sname:
            continue
        of = FnCtx(ob)
        for bb, t in of.calls("VecDeque::pop_front", "VecDeque::pop_back"):
            if not E.mentions_field(of.arg(t, 0), "samples"):
                continue
            ev += 1
            adder(rep, ob)("R04e", "KEEP_LAST eviction removes the oldest retained sample of the instance", t.callee.method() == "pop_front",
                           "%s on the instance's retained samples: the newest sample is dropped and a late-joining TRANSIENT_LOCAL reader receives stale history" % t.callee.method(), t.line)
    rep.floor("R04e", ev, 2, "evictions from the writer's retained samples")

    def guard(e, outcome, ce):
        e0 = E.strip_casts(e)
        return E.is_call(e0, "is_historical_data_received") and outcome == "true"
    n3 = waiter_success_sends(fx, rep, "UserDefinedDataReader", "wait_for_historical_data_notification", guard, "R04c",
                              "send(Ok) to a historical-data waiter only after is_historical_data_received()")
    rep.floor("R04c", n3, 2, "success sends to wait_for_historical_data waiters")
    nb = fx.fn("DcpsDomainParticipant", "notify_historical_data")
    nf = FnCtx(nb)
    vol = variant_value(fx, "DurabilityQosPolicyKind", "Volatile")
    ill = nf.aggregates("DdsError", "IllegalOperation")
    add = adder(rep, nb)
    add("R04c", "IllegalOperation reply exists for VOLATILE readers", bool(ill), "no DdsError::IllegalOperation in notify_historical_data")

    def volguard(e, outcome, ce):
        return e[0] == "discr" and E.mentions_field(e[1], "durability") and outcome == vol
    for bb, i, s in ill:
        found = nf.reach_avoiding([bb], volguard)
        add("R04c", "IllegalOperation only on the Volatile arm", bb not in found, "reachable for other durability kinds", s.line)
    # and no waiter registration / success on the Volatile arm
    vedges = nf.guards(lambda ce: vol if (ce.expr[0] == "discr" and E.mentions_field(ce.expr[1], "durability")) else None)
    for (sb, tgt) in vedges:
        r = nf.mir.reachable(tgt)
        bad = [bb for bb, t in nf.calls("Vec::push") if bb in r and E.mentions_field(nf.arg(t, 0), "wait_for_historical_data_notification")]
        bad += [bb for bb, t in nf.calls("OneshotSender::send") if bb in r and len(t.args) == 2 and nf.arg(t, 1)[0] == "adt" and nf.arg(t, 1)[2] == "Ok"]
        add("R04c", "a VOLATILE reader neither waits nor succeeds", not bad, "Volatile arm reaches a waiter push / Ok reply")
    historical_oracle(fx, rep)
