"""C31 — The DDS worker never oversleeps its periodic duties (sign flow + loop shape; timing not decided).

R31a  the operand of Timer::delay in the worker loop is min(poke_time, time_until_*...).  A time_until_*
      function is MaybeNegative when its result comes from a Time/Duration subtraction `limit - elapsed`
      that is neither guarded by a comparison of the same operands nor clamped at zero.  A negative
      Duration reaches `From<Duration> for core::time::Duration`, whose `sec as u64` turns it into ~2^64
      seconds: the worker then sleeps until unrelated mail arrives.  Accepted: every source non-negative,
      or a clamp after the min chain, or a sign guard inside the conversion (the sink).
R31b  the delay operand is bounded above by the poke period: the min chain starts from
      Duration::new(0, 50_000_000) and only applies `min`
R31c  on every worker iteration each periodic duty is called for every participant
"""
from vplib import expr as E
from vplib.facts import path_endswith, short_ty, Place
from rules.common import FnCtx, cmp_norm, adder

TECHNIQUE = "sign-qualifier flow (sources: unguarded limit-minus-elapsed subtractions; sink: unsigned cast in the Duration conversion) + expression shape of the min chain + loop-body coverage"
ASSUMPTIONS = ["Clock::now() is monotone (now - earlier_timestamp >= 0)", "poke period 50 ms as stated by the property"]

DUTIES = ("remove_stale_participants", "check_missed_reader_deadline", "check_missed_writer_deadline", "remove_stale_writer_samples",
          "check_pending_writer_sample_timeout", "process_pending_write_samples", "announce_participant_if_needed", "poke",
          "process_builtin_cache_changes", "process_user_defined_received_cache_changes")


def sink_guarded(fx, rep):
    b = fx.fn("core::time::Duration", "from", trait="From") if False else None
    cands = [x for x in fx.bodies.values() if x.kind == "AssocFn" and x.item_name == "from" and x.impl_trait and path_endswith(x.impl_trait, "From")
             and (x.impl_self or "").endswith("time::Duration") and "core::time" in (x.impl_self or "") + "std::time" and x.inputs
             and x.inputs[0].endswith("infrastructure::time::Duration")]
    if not cands:
        cands = [x for x in fx.bodies.values() if x.kind == "AssocFn" and x.item_name == "from" and x.inputs and x.inputs[0].endswith("infrastructure::time::Duration")
                 and "std::time::Duration" in (x.output or "")]
    if len(cands) != 1:
        rep.add("R31a", "-", "conversion Duration -> core::time::Duration found", False, "found %d candidates" % len(cands), "")
        return False, None
    b = cands[0]
    fc = FnCtx(b)
    casts = []
    for bb, i, s in fc.mir.stmts():
        if s.kind == "assign" and s.rv.kind == "cast" and s.rv.from_ty == "i32" and s.rv.to_ty in ("u64", "u32", "usize"):
            casts.append((bb, s))

    def nonneg(op, a, c):
        if E.strip_casts(a)[0] == "param" and E.strip_casts(a)[2][-1:] == ("sec",) and c == ("const", 0):
            return {"Lt": "false", "Ge": "true"}.get(op)
        return None
    g = fc.cmp_guards(nonneg)
    ok = bool(casts) and bool(g) and all(fc.only_through([bb], g) for bb, s in casts)
    # a negative Duration is normalised as (negative sec, positive nanosec): clamping sec alone turns -8.0003 s into 0.9997 s.
    # The whole value must be replaced (ZERO) on the negative side, i.e. the nanosec operand is also used only behind the sign guard
    news = [bb for bb, t in fc.mir.calls() if not t.callee.indirect and t.callee.method() == "new" and "time::Duration" in (t.callee.best_name() or "")
            and any(E.mentions_field(fc.arg(t, i), "nanosec") for i in range(len(t.args)))]
    ok = ok and bool(news) and all(fc.only_through([bb], g) for bb in news)
    return (ok or not casts), b


def classify(fx, b):
    """[(closure/fn, line, text)] of unguarded `limit - elapsed` subtractions in the family of b"""
    out = []
    for x in [b] + fx.descendants(b):
        if x.kind.startswith("Const") or x.kind.startswith("Static"):
            continue
        fc = FnCtx(x)
        for bb, t in fc.calls("Sub::sub"):
            ty = t.callee.self_ty or ""
            if not (ty.endswith("time::Time") or ty.endswith("time::Duration")):
                continue
            a, c = fc.arg(t, 0), fc.arg(t, 1)
            if E.mentions_local_named(fc.mir, a, "now") or E.mentions_field(a, "now"):
                continue   # now - earlier: non-negative under the monotone clock assumption

            def guard(op, p, q, a=a, c=c):
                if E.same(E.strip_casts(p), E.strip_casts(a)) and E.same(E.strip_casts(q), E.strip_casts(c)):
                    return {"Gt": "true", "Ge": "true", "Lt": "false", "Le": "false"}.get(op)
                if E.same(E.strip_casts(p), E.strip_casts(c)) and E.same(E.strip_casts(q), E.strip_casts(a)):
                    return {"Lt": "true", "Le": "true", "Gt": "false", "Ge": "false"}.get(op)
                return None
            g = fc.cmp_guards(guard)
            if g and fc.only_through([bb], g):
                continue
            out.append((x, t.line, "%s - %s" % (fc.show(a)[:50], fc.show(c)[:50])))
    return out


def run(ctx, rep):
    fx = ctx.facts
    guarded, conv = sink_guarded(fx, rep)
    if conv is not None:
        rep.add("R31a", conv.sname, "negative Duration cannot become a huge core::time::Duration (sign guard / clamp at the sink)", guarded,
                "`sec as u64` is applied to a possibly negative sec: Duration{sec:-1,..} becomes ~1.8e19 s", conv.loc())
    names = ("time_until_stale_participant", "time_until_missed_reader_deadline", "time_until_missed_writer_deadline",
             "time_until_stale_writer_sample", "time_until_pending_writer_sample_timeout", "time_until_participant_announcement")
    n = 0
    neg, nonneg = [], []
    for nm in names:
        fns = [b for b in fx.bodies.values() if b.kind == "AssocFn" and b.item_name == nm and short_ty(b.impl_self or "") in ("DcpsDomainParticipant", "DomainParticipantEntity")]
        for b in fns:
            n += 1
            srcs = classify(fx, b)
            (neg if srcs else nonneg).append(b.sname)
            rep.add("R31a", b.sname, "%s cannot hand a negative sleep time to the worker" % nm, (not srcs) or guarded,
                    "overdue values are negative (%s) and win the min(): the worker delay becomes ~2^64 s" % "; ".join("%s at line %s" % (t, ln) for _, ln, t in srcs[:2]),
                    b.loc())
    rep.floor("R31a", n, 6, "time_until_* functions")
    rep.note("R31c sibling view: clamped/guarded = %s ; may be negative = %s" % (nonneg, neg))
    # worker loop
    w = fx.fn("DomainParticipantFactoryAsync", "new", inherent=True)
    loops = [k for k in fx.descendants(w) if k.calls_any("Timer::delay") and k.calls_any("time_until_stale_participant")]
    rep.add("R31b", w.sname, "worker loop found", len(loops) == 1, "found %d bodies calling Timer::delay" % len(loops), w.loc())
    rep.floor("R31b", len(loops), 1, "worker loop coroutine")
    for k in loops:
        fc = FnCtx(k)
        add = adder(rep, k)
        for bb, t in fc.calls("Timer::delay"):
            e = E.strip_casts(fc.arg(t, 1))
            # walk down the min chain along the first argument
            depth = 0
            mins = 0
            cur = e
            while E.is_call(cur, "Ord::min") and cur[2] and depth < 20:
                mins += 1
                cur = E.strip_casts(cur[2][0])
                depth += 1
            if mins == 0 and E.is_call(e, "Iterator::fold") and len(e[2]) == 3:
                # the same as a fold: [t1, .., t6].into_iter().flatten().fold(poke_time, Ord::min)
                folder = E.strip_casts(e[2][2])
                is_min = (folder[0] in ("fn", "zst", "const", "named") and "min" in str(folder)) or \
                    any(cb.calls_any("Ord::min", "min") for cb in __import__("rules.common", fromlist=["closure_bodies_in"]).closure_bodies_in(fx, fc, e))
                if is_min:
                    cur = E.strip_casts(e[2][1])
                    mins = sum(1 for nm in names if E.mentions_call(e[2][0], nm))
            ok = E.is_call(cur, "Duration::new") and len(cur[2]) == 2 and cur[2][0] == ("const", 0) and cur[2][1][0] == "const" and cur[2][1][1] <= 50_000_000
            add("R31b", "sleep time = min(poke period <= 50 ms, ...)", ok and mins >= 1,
                "delay operand is %s" % fc.show(e)[:160], t.line)
            add("R31a", "all six time_until_* results take part in the min chain", mins >= 6, "only %d min() applications" % mins, t.line)
        # duties
        m = fc.mir
        body_calls = {}
        for d in DUTIES:
            body_calls[d] = [bb for bb, t in fc.calls(d) if t.callee.method() == d]
            add("R31c", "worker iteration calls %s" % d, bool(body_calls[d]), "duty not called in the worker loop")
        nexts = [bb for bb, t in fc.calls("Iterator::next")]
        for hb in nexts:
            some = None
            for sb, ce in fc.ces.items():
                if ce.expr[0] == "discr" and ce.expr[1][0] == "call" and ce.expr[1][3] == hb and not ce.expr[1][4]:
                    some = ce.target_for(1)
            if some is None or hb not in m.reachable(some):
                continue
            for d, blocks in body_calls.items():
                if blocks and any(b in m.reachable(some) for b in blocks):
                    add("R31c", "%s runs for every participant on every iteration" % d, hb not in m.reachable(some, removed_blocks=blocks),
                        "a path through the per-participant body skips %s" % d)
    # R27e (shared with C27): the Timeout a blocked write waits for is armed at local now + max_blocking_time, so the worker's
    # time_until_pending_writer_sample_timeout bounds the reply by max_blocking_time plus one poke period
    from rules.c27 import check_blocked
    wb = fx.fn("DcpsDomainParticipant", "write_w_timestamp")
    k = check_blocked(fx, wb, adder(rep, wb))
    rep.floor("R27e", k, 1, "PendingWriteSample constructions")
