"""C38 — UDP transport accepts exactly the documented fragment sizes (8..=65000).

Decides, on every path of `RtpsUdpTransportParticipantFactory::set_fragment_size`:
  R38a  the value stored into the `fragment_size` field is the argument (provenance);
  R38b  the store is entered with exactly the argument values 8..=65000 (interval analysis of the
        branch conditions that constrain the *argument* — a test of any other value, e.g. the old
        field, constrains nothing);
  R38c  `DdsError::BadParameter` is constructed exactly for the complement, and no store precedes it.
Oracle: the doc comment of the setter ("between 8 to 65000"), transcribed below.
"""
from vplib.flow import origin_of_operand
from vplib.intervals import SubjectAnalysis, ISet

TECHNIQUE = "MIR interval analysis of branch conditions on the setter argument + store provenance (T-FLOW/T-DOM)"
ASSUMPTIONS = ["documented range 8..=65000 transcribed from the setter's doc comment"]
LO, HI = 8, 65000


def check_setter(body, field, rep_add):
    m = body.mir
    # the single non-self parameter
    if m.arg_count != 2:
        rep_add("R38a", "setter has one value parameter", False, "arg_count=%d" % m.arg_count)
        return 0
    param = 2
    # a verdict stored first (`let v = if in_range { Ok(()) } else { Err(..) }; v?;`) splits the setter into scenarios whose results are united
    from rules.common import FnCtx, carrier_scenarios

    class _Union:
        def __init__(self, parts):
            self.parts = parts
            self.relevant_conds = sorted({c for p in parts for c in p.relevant_conds})

        def at(self, bb):
            r = ISet.empty()
            for p in self.parts:
                r = r.union(p.at(bb))
            return r
    ana = _Union([SubjectAnalysis(m, lambda e: e == ("param", param, ()), body=body, removed_blocks=rb, removed_edges=re_)
                  for rb, re_ in carrier_scenarios(FnCtx(body))])
    want = ISet([(LO, HI)])
    stores = 0
    for bb, i, s in m.stmts():
        if s.kind != "assign" or not s.lhs.proj:
            continue
        lf = s.lhs.last_field()
        if lf is None or lf[1] != field or s.lhs.proj[-1][0] != "field":
            continue
        stores += 1
        o = origin_of_operand(m, s.rv.ops[0]) if s.rv.kind == "use" else None
        ok = o is not None and o.kind == "param" and o.obj == param and not o.path
        rep_add("R38a", "stored value is the argument", ok, "stored value origin: %r" % (o,), s.line)
        got = ana.at(bb)
        ex = got.sample_outside(want)
        miss = want.sample_outside(got)
        rep_add("R38b", "store reached exactly for argument in %d..=%d" % (LO, HI), got == want,
                "store reachable with argument in %r%s%s (conditions on the argument seen: %s)" % (
                    got, ("; e.g. accepts %d" % ex) if ex is not None else "",
                    ("; e.g. rejects %d" % miss) if miss is not None else "", ana.relevant_conds), s.line)
    # BadParameter constructed exactly on the complement, with no store before it
    errs = 0
    comp = want.complement()
    store_blocks = [bb for bb, i, s in m.stmts() if s.kind == "assign" and s.lhs.proj and s.lhs.last_field()
                    and s.lhs.last_field()[1] == field and s.lhs.proj[-1][0] == "field"]
    for bb, i, s in m.stmts():
        if s.kind == "assign" and s.rv.is_adt("DdsError", "BadParameter"):
            errs += 1
            got = ana.at(bb)
            rep_add("R38c", "BadParameter exactly for the complement", got == comp,
                    "BadParameter constructed for argument in %r, expected %r" % (got, comp), s.line)
            # no store on any path leading here: removing store blocks must leave it reachable
            r = m.reachable(0, removed_blocks=store_blocks)
            rep_add("R38c", "no store before rejection", bb in r,
                    "every path to the rejection passes a store of the field", s.line)
    if errs == 0:
        rep_add("R38c", "BadParameter constructed", False, "no DdsError::BadParameter in the setter")
    return stores


def run(ctx, rep):
    fx = ctx.facts
    b = fx.fn("RtpsUdpTransportParticipantFactory", "set_fragment_size")
    n = check_setter(b, "fragment_size",
                     lambda rule, desc, ok, detail="", line=None: rep.add(rule, b.sname, desc, ok, detail, b.loc(line)))
    rep.floor("R38", n, 1, "stores to RtpsUdpTransportParticipantFactory.fragment_size in the setter")
    # who-may-write: no other function writes the field (except constructors via aggregate)
    adt = "RtpsUdpTransportParticipantFactory"
    for ob in fx.bodies.values():
        if ob.id == b.id or ob.kind not in ("Fn", "AssocFn") and not ob.kind.startswith("Closure"):
            continue
        if not ob.writes_field(adt, "fragment_size"):
            continue
        for bb, i, s in ob.mir.stmts():
            if s.kind == "assign" and s.lhs.proj and s.lhs.proj[-1][0] == "field":
                lf = s.lhs.last_field()
                if lf[1] == "fragment_size" and lf[0].endswith(adt):
                    rep.add("R38d", ob.sname, "write to fragment_size outside the setter", False,
                            "field written without the range test", ob.loc(s.line))


def fixture(fxf):
    out = []
    for name, exp in (("good_set_fragment_size", True), ("good_cmp_set_fragment_size", True),
                      ("bad_old_set_fragment_size", False), ("bad_store_first_set_fragment_size", False),
                      ("bad_bounds_set_fragment_size", False), ("bad_truncated_set_fragment_size", False)):
        b = fxf.fn("Factory", name)
        res = []
        check_setter(b, "fragment_size", lambda rule, desc, ok, detail="", line=None: res.append(ok))
        out.append(("c38." + name, exp, all(res) and len(res) > 0))
    return out
