"""C35 — Entity handles stay unique and entity creation never panics (counter discipline).

R35a  every increment of an entity counter (publisher_counter, subscriber_counter: u8; reader_counter,
      writer_counter, topic_counter: u16) that feeds entity identities is overflow-safe: it goes through
      checked_add with an error return (no `Overflow(Add)` assert, which panics in debug builds, and no
      silent wrap, which re-issues a live handle in release builds)
R35b  each new InstanceHandle / EntityId built in a create function derives from such a counter
R35c  the creators agree (sibling rule): same discipline in all of them
"""
from vplib import expr as E
from vplib.facts import short_ty
from rules.common import FnCtx, adder

TECHNIQUE = "type/shape rule on counter updates (MIR Assert(Overflow) presence, checked_add provenance) + handle provenance"
ASSUMPTIONS = ["counters are never decremented or reused, so they bound the number of creations, not of live entities"]

COUNTERS = ("publisher_counter", "subscriber_counter", "reader_counter", "writer_counter", "topic_counter")


def run(ctx, rep):
    fx = ctx.facts
    n = 0
    creators = set()
    for b in fx.bodies.values():
        if not b.is_fn_like():
            continue
        hit = [f for a, f in b.sum_writes if f in COUNTERS]
        if not hit:
            continue
        fc = FnCtx(b)
        m = fc.mir
        for f in sorted(set(hit)):
            for bb, i, s in fc.field_writes(None, f):
                n += 1
                creators.add(b.sname)
                e = fc.rv_expr(s)
                plain = e[0] == "bin" and e[1] == "Add"
                checked = E.mentions_call(e, "checked_add")
                # the Overflow assert that guards a plain add
                asserts = [blk.term for blk in m.blocks if blk.term.kind == "assert" and (blk.term.assert_kind or "").startswith("Overflow(Add")
                           and any(o.place is not None and o.place.proj and o.place.proj[-1][0] == "field" and o.place.proj[-1][4] == f for o in blk.term.ops)]
                width = m.locals[s.lhs.local] if False else None
                rep.add("R35a", b.sname, "%s is advanced with an overflow check that returns an error" % f, checked and not asserts,
                        "`%s += 1` on a small counter (%s): the %s creation panics the worker in a debug build and wraps to an identity that "
                        "may still be alive in a release build (counters are never reused, so create/delete cycles are enough)"
                        % (f, "u8" if f in ("publisher_counter", "subscriber_counter") else "u16",
                           "257th" if f in ("publisher_counter", "subscriber_counter") else "65537th"), b.loc(s.line))
        # R35b: handles built here use the counter
        for bb, t in fc.calls("InstanceHandle::new", "EntityId::new"):
            a = fc.eb.call(t, bb, 0)
            if any(E.mentions_field(a, f) for f in hit):
                rep.add("R35b", b.sname, "new identity derives from the entity counter", True, "", b.loc(t.line))
    rep.floor("R35a", n, 6, "entity counter increments")
    rep.note("creators: %s" % sorted(creators))
