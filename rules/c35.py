"""C35 — Entity handles stay unique and entity creation never panics (counter discipline).

R35a  every increment of an entity counter (publisher_counter, subscriber_counter: u8; reader_counter,
      writer_counter, topic_counter: u16) that feeds entity identities is overflow-safe: it goes through
      checked_add with an error return (no `Overflow(Add)` assert, which panics in debug builds, and no
      silent wrap, which re-issues a live handle in release builds)
R35b  each new InstanceHandle / EntityId built in a create function derives from such a counter
R35c  the creators agree (sibling rule): same discipline in all of them
"""
from vplib import expr as E
from vplib.facts import short_ty
from rules.common import FnCtx, adder

TECHNIQUE = "type/shape rule on counter updates (MIR Assert(Overflow) presence, checked_add provenance) + handle provenance"
ASSUMPTIONS = ["counters are never decremented or reused, so they bound the number of creations, not of live entities"]

COUNTERS = ("publisher_counter", "subscriber_counter", "reader_counter", "writer_counter", "topic_counter")


def run(ctx, rep):
    fx = ctx.facts
    n = 0
    creators = set()
    for b in fx.bodies.values():
        if not b.is_fn_like():
            continue
        hit = [f for a, f in b.sum_writes if f in COUNTERS]
        if not hit:
            continue
        fc = FnCtx(b)
        m = fc.mir
        for f in sorted(set(hit)):
            for bb, i, s in fc.field_writes(None, f):
                n += 1
                creators.add(b.sname)
                e = fc.rv_expr(s)
                plain = e[0] == "bin" and e[1] == "Add"
                checked = E.mentions_call(e, "checked_add")
                # the Overflow assert that guards a plain add
                asserts = [blk.term for blk in m.blocks if blk.term.kind == "assert" and (blk.term.assert_kind or "").startswith("Overflow(Add")
                           and any(o.place is not None and o.place.proj and o.place.proj[-1][0] == "field" and o.place.proj[-1][4] == f for o in blk.term.ops)]
                width = m.locals[s.lhs.local] if False else None
                rep.add("R35a", b.sname, "%s is advanced with an overflow check that returns an error" % f, checked and not asserts,
                        "`%s += 1` on a small counter (%s): the %s creation panics the worker in a debug build and wraps to an identity that "
                        "may still be alive in a release build (counters are never reused, so create/delete cycles are enough)"
                        % (f, "u8" if f in ("publisher_counter", "subscriber_counter") else "u16",
                           "257th" if f in ("publisher_counter", "subscriber_counter") else "65537th"), b.loc(s.line))
        # R35b: handles built here use the counter
        for bb, t in fc.calls("InstanceHandle::new", "EntityId::new"):
            a = fc.eb.call(t, bb, 0)
            if any(E.mentions_field(a, f) for f in hit):
                rep.add("R35b", b.sname, "new identity derives from the entity counter", True, "", b.loc(t.line))
    rep.floor("R35a", n, 6, "entity counter increments")
    # R35c: all creators that share a counter use it the same way round: the identity is built from the value *before* the
    # increment (post-increment). A creator that increments first would hand out the value the next post-incrementing creator uses.
    # R35d: an identity derived from a 16-bit counter uses both of its bytes (byte 0 and byte 1), each once
    order = {}
    nid = 0
    for b in fx.bodies.values():
        if not b.is_fn_like():
            continue
        hit = sorted({f for a, f in b.sum_writes if f in COUNTERS})
        if not hit:
            continue
        fc = FnCtx(b)
        m = fc.mir
        for f in hit:
            wblocks = [bb for bb, i, s in fc.field_writes(None, f)]
            # blocks that read the counter's bytes for an identity
            idx = []
            rblocks = []
            for bb, t in m.calls():
                if not t.callee.indirect and t.callee.method() in ("to_le_bytes", "to_ne_bytes", "to_be_bytes") and t.args and E.mentions_field(fc.arg(t, 0), f):
                    rblocks.append(bb)
            for bb, i, s in m.stmts():
                if s.kind == "assign" and s.rv is not None and s.rv.kind == "use" and s.rv.ops and s.rv.ops[0].place is not None:
                    pl = s.rv.ops[0].place
                    for pr in pl.proj:
                        if pr[0] in ("cindex", "index"):
                            src = fc.eb.place(type(pl)([pl.local, []])) if False else None
            # constant indices applied to the byte arrays: read them from the expressions of the identity constructors
            for bb, t in fc.calls("InstanceHandle::new", "EntityId::new"):
                e = fc.eb.call(t, bb, 0)
                if not E.mentions_field(e, f):
                    continue
                nid += 1
                # byte indices applied to the counter's byte array inside this function
                ks = []
                byte_locals = {t2.dest.local for b2, t2 in m.calls() if not t2.callee.indirect and t2.callee.method() in ("to_le_bytes", "to_ne_bytes", "to_be_bytes")
                               and t2.args and E.mentions_field(fc.arg(t2, 0), f) and t2.dest is not None}
                for b2, i2, s2 in m.stmts():
                    if s2.kind == "assign" and s2.rv is not None and s2.rv.kind == "use" and s2.rv.ops and s2.rv.ops[0].place is not None and s2.rv.ops[0].place.local in byte_locals:
                        for pr in s2.rv.ops[0].place.proj:
                            if pr[0] == "cindex":
                                ks.append(pr[1])
                            elif pr[0] == "index":
                                for d in m.whole_defs(pr[1]):
                                    if d[0] == "s" and d[3].rv is not None and d[3].rv.kind == "use" and d[3].rv.ops and d[3].rv.ops[0].const is not None:
                                        ks.append(d[3].rv.ops[0].const.get("v"))
                width = 1 if f in ("publisher_counter", "subscriber_counter") else 2
                nids = len([1 for b3, t3 in fc.calls("InstanceHandle::new", "EntityId::new") if E.mentions_field(fc.eb.call(t3, b3, 0), f)])
                if ks and nids:
                    want = sorted(list(range(width)) * 1)
                    per = sorted(ks)
                    # several identities in one function (handle and entity id) each use every byte once
                    ok = len(per) % width == 0 and all(per.count(i) == len(per) // width for i in range(width)) and set(per) == set(range(width))
                    rep.add("R35d", b.sname, "identity uses every byte of %s" % f, ok,
                            "byte indices used: %s (counter has %d bytes): identities repeat after 256 creations although the counter has not wrapped" % (per, width), b.loc(t.line))
                # order relative to the increment
                before = all(w in m.reachable(bb) and bb not in m.reachable(w) for w in wblocks) if wblocks else None
                order.setdefault(f, []).append((b, before, t.line))
    for f, lst in sorted(order.items()):
        kinds = {bf for _, bf, _ in lst}
        for b, bf, line in lst:
            rep.add("R35c", b.sname, "identity is built from %s before it is incremented (all creators agree)" % f, bf is True,
                    "this creator %s while the others build the identity first: two creators sharing the counter hand out the same identity" % ("increments first" if bf is False else "has no ordered increment"), b.loc(line))
    rep.floor("R35c", nid, 6, "identity constructions from an entity counter")
    rep.note("creators: %s" % sorted(creators))
