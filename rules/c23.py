"""C23 — read_next_instance / take_next_instance visit every instance with matching samples (structural).

R23a  in UserDefinedDataReader::{read,take}_next_instance the instance selector (next_instance) and the
      read/take of the selected instance lie on a common CFG cycle whose exit depends on the read result
      (retry on NoData), or the state masks flow into the selector.  If the selected handle is a function
      of (previous_handle, instance set) only and there is no retry, an instance without matching samples
      ends the walk early with NoData although later instances have matching samples.
R23b  next_instance returns min{h in instances : h > previous} (min of all when previous is None)
"""
from vplib import expr as E
from vplib.facts import Place
from rules.common import FnCtx, cmp_norm, adder, closure_bodies_in

TECHNIQUE = "loop-shape rule (selector and read on a common cycle) or parameter-influence on the selector; closure predicate shape"
ASSUMPTIONS = ["instance handles are totally ordered by their derived Ord"]


def walk_fn(fx, rep, name, inner):
    b = fx.fn("UserDefinedDataReader", name)
    fc = FnCtx(b)
    m = fc.mir
    add = adder(rep, b)
    sel = fc.calls("DataReaderEntity::next_instance", "next_instance")
    rd = fc.calls("UserDefinedDataReader::" + inner, "DataReaderEntity::" + inner)
    add("R23a", "selector and %s calls present" % inner, bool(sel) and bool(rd), "next_instance / %s call missing" % inner)
    if not sel or not rd:
        return 0
    cyc = any(m.on_cycle(sb, rb) for sb, _ in sel for rb, _ in rd)
    # alternative: masks flow into the selector call
    influence = False
    for sb, t in sel:
        for a in t.args[1:]:
            e = fc.eb.operand(a)
            for p in E.walk(e):
                if p[0] == "param" and m.name_of(p[1]) in ("sample_states", "view_states", "instance_states"):
                    influence = True
    retry_on_nodata = False
    if cyc:
        # the cycle is taken on the NoData outcome of the read: some switch on the read result lies on the cycle
        for sbb, ce in fc.ces.items():
            if ce.expr[0] == "discr" and any(E.mentions_call(ce.expr[1], "UserDefinedDataReader::" + inner, "DataReaderEntity::" + inner) for _ in (0,)):
                if any(m.on_cycle(sbb, sb) for sb, _ in sel):
                    retry_on_nodata = True
    add("R23a", "instances without matching samples are skipped (retry loop or mask-aware selector)", (cyc and retry_on_nodata) or influence,
        "%s selects the next handle from (previous_handle, instances) only and reads it once: if that instance has no sample matching "
        "the masks it returns NoData and the walk stops although later instances have matching samples" % name)
    # NoData only when the selector is exhausted
    nd = [bb for bb, i, s in fc.aggregates("DdsError", "NoData")]
    g = fc.guards(lambda ce: 0 if (ce.expr[0] == "discr" and E.mentions_call(ce.expr[1], "next_instance") and not E.mentions_call(ce.expr[1], inner)) else None)
    add("R23a", "own NoData only when no further instance exists", (not nd) or (bool(g) and fc.only_through(nd, g)),
        "Err(NoData) constructed although next_instance returned an instance")
    return 1


def selector(fx, rep):
    b = fx.fn("DataReaderEntity", "next_instance")
    fc = FnCtx(b)
    add = adder(rep, b)
    mins = fc.calls("Iterator::min")
    add("R23b", "selector takes the minimum handle", len(mins) >= 1, "no Iterator::min")
    ok = False
    for bb, t in mins:
        e = fc.eb.call(t, bb, 0)
        if E.mentions_call(e, "Iterator::filter"):
            for cb in closure_bodies_in(fx, fc, e):
                kf = FnCtx(cb)
                c = cmp_norm(kf.eb.place(Place([0, []])))
                if c and c[0] in ("Gt",) and c[1][0] == "param" and c[1][1] == 2:
                    ok = True
                elif c and c[0] in ("Lt",) and c[2][0] == "param" and c[2][1] == 2:
                    ok = True
                elif c and (c[1][0] == "param" and c[1][1] == 2 or c[2][0] == "param" and c[2][1] == 2):
                    add("R23b", "filter keeps handles strictly greater than the previous one", False, "predicate is %s" % c[0], cb.line)
    add("R23b", "filter keeps handles strictly greater than the previous one", ok, "no `h > previous` filter before min()")
    return len(mins)


def run(ctx, rep):
    fx = ctx.facts
    n = walk_fn(fx, rep, "read_next_instance", "read") + walk_fn(fx, rep, "take_next_instance", "take")
    rep.floor("R23a", n, 2, "next-instance walkers")
    k = selector(fx, rep)
    rep.floor("R23b", k, 2, "min() selections in next_instance")
    # R23c: the walkers step over an instance that is known but has no matching samples because create_sample_collection answers
    # NoData for it; BadParameter (which aborts the walk) is reserved for handles that are not in the reader's instance list
    b = fx.fn("DataReaderEntity", "create_sample_collection")
    bf = FnCtx(b)
    bp = [bb for bb, i, s in bf.aggregates("DdsError", "BadParameter")]
    okb = False
    from rules.common import not_member_pred
    gm = bf.guards(not_member_pred("instances", "sample_list"))
    okb = bool(gm) and bf.only_through(bp, gm)
    adder(rep, b)("R23c", "a known instance without matching samples yields NoData, never BadParameter", bool(bp) and okb,
                  "BadParameter is not decided on self.instances: the next-instance walk aborts at an instance whose samples were all taken")
