"""C09 — XCDR serialization round-trips every value of every supported type (serializer / deserializer agreement).

deserialize(serialize(v)) == v for all v is a runtime property and is not decided. Decided is that the two sibling
implementations of the XTypes serialization rules (xtypes/serializer.rs and xtypes/deserializer.rs) agree on the wire layout —
each rule below is a necessary condition of the round trip and is checked on the resolved MIR of both sides:

R09o  BYTE ORDER: each method of the BigEndian / LittleEndian strategy impls (EndiannessRead, EndiannessWrite) converts with the
      from_/to_ function of its own byte order on every width (sibling agreement over 36 methods)
R09a  ALIGN: per encoding version the serializer and the deserializer clamp alignment with the same constant (8 for XCDR1, 4 for XCDR2)
R09b  DHEADER: only XCDR2-specific code writes or skips a DHEADER, and for each construct (appendable, mutable struct / union,
      non-primitive sequence / array) the XCDR2 serializer writes one exactly when the XCDR2 deserializer consumes one
R09k  XCDR2 aggregated objects with a DHEADER (appendable / mutable struct and union): the decoder hands the DHEADER to a delimiting
      function (one that derives both the read limit and the position where reading continues from it) — a discarded DHEADER leaves
      the position inside or at the start of a nested object
R09l  XCDR1 mutable struct / union: every successful return of the decoder passes a function that stops only at the sentinel
R09m  XCDR2 member lookup compares member ids without narrowing them below the 28 bits of the EMHEADER
R09n  the serializer chooses EMHEADER length code 5 (NEXTINT is the member's first word and its byte length) for a sequence only with
      regard to the element type. KNOWN FINDING on the current tree: chosen for every SEQUENCE member
R09c  strings: the serializer writes length = len + 1 and a terminating NUL; the deserializer reads length - 1 bytes and one more byte
R09d  supported kinds: serialize_value / deserialize_value (and the element forms) leave the same TypeKind arms unimplemented
R09e  EMHEADER length code: the serializer's size -> LC table is the inverse of the deserializer's LC -> size table on 1, 2, 4, 8
R09f  EMHEADER / PL_CDR1 member-header bit layout: same masks and shifts on both sides
R09g  representation identifiers: the constant tables of the serializer, the deserializer and the discovery decoder are equal, and the
      deserializer maps every identifier the serializer can emit to the same (version, byte order)
"""
from vplib import expr as E
from rules.common import FnCtx, adder

TECHNIQUE = "sibling cross-check of serializer and deserializer over MIR: clamp constants, header presence per construct and version, switch tables, masks, constant tables"
ASSUMPTIONS = ["the per-type value conversion (DynamicData <-> Rust types) is C40's subject"]

SER, DES = "xtypes::serializer", "xtypes::deserializer"


def impl_fns(fx, mod, version, name):
    return [b for b in fx.bodies.values() if b.item_name == name and b.is_fn_like() and ("%s::EncodingVersion%d" % (mod, version)) in (b.impl_self or "")]


def clamp_of(fc, sink):
    """constant K of cmp::min(x, K) that feeds `sink`, None when the value is passed unclamped, 'missing' when no sink call"""
    for bb, t in fc.mir.calls():
        if not t.callee.indirect and t.callee.method() == sink and len(t.args) >= 2:
            a = E.strip_casts(fc.arg(t, 1))
            if a[0] == "call" and a[1].endswith("::min") and len(a[2]) == 2:
                k = E.strip_casts(a[2][1])
                return k[1] if k[0] == "const" else "?"
            return None
    return "missing"


def delimiting_fns(fx):
    """ids of deserializer functions that confine reading to an announced extent: they have an integer parameter from which both a
    store to Reader.buffer (the limit) and a store to Reader.pos (where reading continues) derive"""
    from vplib import flow
    out = {}
    for b in fx.bodies.values():
        if not b.is_fn_like() or (DES + "::") not in b.sname or "::tests::" in b.sname:
            continue
        fc = FnCtx(b)
        m = fc.mir
        params = [i + 1 for i, ty in enumerate(b.inputs or []) if ty in ("u32", "usize", "u64")]
        if not params:
            continue
        g = flow.dep_graph(m)
        got = {"pos": False, "buffer": False}
        for fld in got:
            for bb, i, s in fc.field_writes("Reader", fld):
                used = s.rv.locals_used()
                if any(flow.derives_from(m, u, g) & set(params) for u in used):
                    got[fld] = True
        if got["pos"] and got["buffer"]:
            out[b.id] = b
    return out


def header_reads(fx, fc, delim=None):
    """[(bb, line, mode)] for every u32 primitive read of the function: mode 'discarded' (value never used: a header that is skipped),
    'delimits' (value handed to a delimiting function, see delimiting_fns) or 'used'"""
    delim = delimiting_fns(fx) if delim is None else delim
    m = fc.mir
    disc = {(bb, line) for bb, line in discarded_u32_reads(fc)}
    out = []
    for bb, t in m.calls():
        if t.callee.indirect or t.callee.method() != "deserialize_primitive_type" or t.dest is None or "Result<u32" not in m.locals[t.dest.local]:
            continue
        if (bb, t.line) in disc:
            out.append((bb, t.line, "discarded"))
            continue
        vals = _continue_values(m, t.dest.local)
        mode = "used"
        for b2, t2 in m.calls():
            if t2.callee.indirect or t2.callee.res_id not in delim:
                continue
            if any(a.place is not None and a.place.local in vals for a in t2.args):
                mode = "delimits"
        if mode == "used":
            # the same done inline: both the read limit and the continuation position are stored from the value
            from vplib import flow
            g = flow.dep_graph(m)
            inline = {"pos": False, "buffer": False}
            for fld in inline:
                for b3, i3, s3 in fc.field_writes("Reader", fld):
                    if any(flow.derives_from(m, u, g) & vals for u in s3.rv.locals_used()):
                        inline[fld] = True
            if inline["pos"] and inline["buffer"]:
                mode = "delimits"
        out.append((bb, t.line, mode))
    return out


def _continue_values(m, d):
    """locals holding the Ok value of the Result in local d after `?` (and plain copies of it)"""
    branch_dests = [t2.dest.local for b2, t2 in m.calls() if t2.callee.method() == "branch" and t2.dest is not None
                    and any(a.place is not None and a.place.local == d for a in t2.args)]
    vals = set()
    for b2, i, s in m.stmts():
        if s.kind == "assign" and s.rv is not None and s.rv.kind == "use" and s.rv.ops and s.rv.ops[0].place is not None:
            pl = s.rv.ops[0].place
            if pl.local in branch_dests and any(p[0] == "downcast" and p[1] == "Continue" for p in pl.proj) and not s.lhs.proj:
                vals.add(s.lhs.local)
    for _ in range(4):
        grew = False
        for b2, i, s in m.stmts():
            if s.kind == "assign" and s.rv is not None and s.rv.kind == "use" and not s.lhs.proj and s.rv.ops and s.rv.ops[0].place is not None \
                    and s.rv.ops[0].place.local in vals and not s.rv.ops[0].place.proj and s.lhs.local not in vals:
                vals.add(s.lhs.local)
                grew = True
        if not grew:
            break
    return vals


def sentinel_seekers(fx):
    """ids of XCDR1 deserializer functions that stop only at the sentinel: every `Ok` they return is reached through the true edge of a
    comparison of a length with 0 and of a (masked) id with PID_SENTINEL — a member search (seek_to_pid) also stops at a member"""
    out = {}
    for b in fx.bodies.values():
        if not b.is_fn_like() or (DES + "::") not in b.sname or "::tests::" in b.sname or "EncodingVersion1" not in (b.impl_self or ""):
            continue
        fc = FnCtx(b)
        m = fc.mir
        oks = [bb for bb, i, s in m.stmts() if s.kind == "assign" and s.lhs.local == 0 and not s.lhs.proj and s.rv is not None and s.rv.kind == "aggregate"
               and str(s.rv.agg.get("variant", "")) == "Ok" and not m.blocks[bb].cleanup]
        if not oks or not any(t.callee.method() == "deserialize_primitive_type" for bb, t in m.calls() if not t.callee.indirect):
            continue
        def eq_const(k):
            def pred(e, outcome, ce=None):
                if outcome != "true" or e[0] != "bin" or e[1] != "Eq":
                    return False
                a, c = E.strip_casts(e[2]), E.strip_casts(e[3])
                if a[0] == "const":
                    a, c = c, a
                return c == ("const", k)
            return pred
        if not fc.reach_avoiding(oks, eq_const(0)) and not fc.reach_avoiding(oks, eq_const(1)):
            out[b.id] = b
    return out


def discarded_u32_reads(fc):
    """u32 primitive reads whose value is never used (a header that is skipped)"""
    m = fc.mir
    out = []
    for bb, t in m.calls():
        if t.callee.indirect or t.callee.method() != "deserialize_primitive_type" or t.dest is None or "Result<u32" not in m.locals[t.dest.local]:
            continue
        d = t.dest.local
        # the Result either is never looked at, or goes through `?` and its Continue value is bound and never read
        branch_dests = [t2.dest.local for b2, t2 in m.calls() if t2.callee.method() == "branch" and t2.dest is not None
                        and any(a.place is not None and a.place.local == d for a in t2.args)]
        other_use = any(a.place is not None and a.place.local == d for b2, t2 in m.calls() if t2.callee.method() != "branch" for a in t2.args)
        vals = set()
        for b2, i, s in m.stmts():
            if s.kind == "assign" and s.rv is not None and s.rv.kind == "use" and s.rv.ops and s.rv.ops[0].place is not None:
                pl = s.rv.ops[0].place
                if pl.local in branch_dests and any(p[0] == "downcast" and p[1] == "Continue" for p in pl.proj) and not s.lhs.proj:
                    vals.add(s.lhs.local)
        used = other_use
        for _ in range(4):
            grew = False
            for b2, i, s in m.stmts():
                if s.kind != "assign" or s.rv is None:
                    continue
                reads = [o for o in (s.rv.ops or []) if o.place is not None and o.place.local in vals]
                if s.rv.place is not None and s.rv.place.local in vals:
                    used = True
                if not reads:
                    continue
                if s.rv.kind == "use" and not s.lhs.proj and not reads[0].place.proj:
                    if s.lhs.local not in vals:
                        vals.add(s.lhs.local)
                        grew = True
                else:
                    used = True
            if not grew:
                break
        for b2, t2 in m.calls():
            if any(a.place is not None and a.place.local in vals for a in t2.args):
                used = True
        for blk in m.blocks:
            tt = blk.term
            if tt.kind == "switch" and tt.discr is not None and tt.discr.place is not None and tt.discr.place.local in vals:
                used = True
        if not used:
            out.append((bb, t.line))
    return out


def kind_names(fx):
    a = fx.adt("TypeKind")
    return {v.get("discr", i): v["name"] for i, v in enumerate(a["variants"])}


def kind_arms(fx, b):
    """{TypeKind name: (is_unimplemented, set of local callee method names in the arm)} for the big `match <kind>` of a function"""
    fc = FnCtx(b)
    m = fc.mir
    names = kind_names(fx)
    dom = m.dominators()
    for sb, ce in fc.ces.items():
        if not ce.is_discr() or len(ce.arms) < 10:
            continue
        s0 = E.strip_casts(ce.expr[1])
        if not (E.is_call(s0, "DynamicType::get_kind") or (s0[0] in ("param", "local", "call") and (s0[2] if s0[0] != "call" else s0[4]) and (s0[2] if s0[0] != "call" else s0[4])[-1] == "kind")):
            continue
        out = {}
        for v, tgt in ce.arms:
            blocks = [x for x, ds in dom.items() if ds is not None and tgt in ds]
            todo = False
            callees = set()
            for x in blocks:
                t = m.blocks[x].term
                if t.kind == "call" and not t.callee.indirect:
                    nm = t.callee.best_name() or ""
                    if nm.startswith("core::panicking") and x == tgt or (nm.startswith("core::panicking") and len(blocks) <= 2):
                        todo = True
                    if t.callee.res_id in fx.bodies or "xtypes::" in nm:
                        callees.add(t.callee.method())
            out[names.get(v, str(v))] = (todo, callees)
        return out
    return None


def todo_arms(fx, b):
    ka = kind_arms(fx, b)
    return None if ka is None else {k for k, (t, c) in ka.items() if t}


def norm_callee(n):
    for p in ("serialize_", "deserialize_"):
        if n.startswith(p):
            n = n[len(p):]
    return {"t_as_nested": "as_nested", "primitive_slice": "primitive", "primitive_sequence_elements": "primitive", "primitive_type": "primitive"}.get(n, n)


def switch_table(fc, pred):
    """{arm value: constant assigned in the arm} for the switch selected by pred(ce)"""
    m = fc.mir
    for sb, ce in fc.ces.items():
        if ce.true_target is not None or not pred(ce):
            continue
        tab = {}
        for v, tgt in ce.arms:
            cur = tgt
            for _ in range(3):
                got = False
                for s in m.blocks[cur].stmts:
                    if s.kind == "assign" and s.rv is not None and s.rv.kind == "use" and s.rv.ops and s.rv.ops[0].const is not None and "v" in s.rv.ops[0].const:
                        tab[v] = s.rv.ops[0].const["v"]
                        got = True
                su = m.succ(cur)
                if got or len(su) != 1 or m.blocks[cur].term.kind != "goto":
                    break
                cur = su[0]
        if tab:
            return tab
    return None


def consts_of(fc, ops):
    out = set()
    for bb, i, s in fc.mir.stmts():
        if s.kind == "assign" and s.rv is not None and s.rv.kind == "binop" and s.rv.op.replace("WithOverflow", "") in ops:
            for o in s.rv.ops:
                if o.const is not None and "v" in o.const:
                    out.add((s.rv.op.replace("WithOverflow", ""), o.const["v"]))
    return out


def check_object_extent(fx, rep, rk, rl, rm):
    """Shared by C09 (round trip of a nested object followed by another member) and C39 (a reader that knows fewer / more members):
    rk  XCDR2 decoders of appendable / mutable structs and unions hand the DHEADER to a delimiting function
    rl  XCDR1 decoders of mutable structs and unions pass a sentinel-only seek on every successful return
    rm  XCDR2 member lookup does not narrow member ids below the 28 bits of the EMHEADER"""
    delim = delimiting_fns(fx)
    seekers = sentinel_seekers(fx)
    nagg = 0
    for dn in ("deserialize_appendable_type", "deserialize_appendable_union_type", "deserialize_mstruct_type", "deserialize_munion_type"):
        for d in impl_fns(fx, DES, 2, dn):
            # the members of an aggregated object are read inside the extent its DHEADER announces and reading continues behind it. The
            # member decoders of mutable types restore the read position, and the reader of an appendable type may know fewer members
            # than were written: without the DHEADER the object's end is not known, and whatever follows a nested object is read from
            # the wrong place.
            nagg += 1
            modes = [x[2] for x in header_reads(fx, FnCtx(d), delim)]
            adder(rep, d)(rk, "XCDR2 %s: the DHEADER delimits the object (members are read within it, reading continues behind it)" % dn,
                          modes == ["delimits"],
                          "the DHEADER is %s; a nested object followed by another member is then decoded from the wrong position "
                          "(delimiting functions found: %s)" % (modes or "not read", sorted(b.item_name for b in delim.values())))
    for dn in ("deserialize_mstruct_type", "deserialize_munion_type"):
        for d in impl_fns(fx, DES, 1, dn):
            # XCDR1 has no DHEADER; a mutable object ends at its sentinel. The member decoders restore the read position, so every
            # successful return of the object's decoder has to pass a function that stops only at the sentinel.
            nagg += 1
            m = FnCtx(d).mir
            member_calls = [bb for bb, t in m.calls() if not t.callee.indirect and t.callee.method() in ("deserialize_members", "deserialize_munion_members", "deserialize_mmember")]
            seek_blocks = [bb for bb, t in m.calls() if not t.callee.indirect and t.callee.res_id in seekers]
            err_blocks = [bb for bb, t in m.calls() if not t.callee.indirect and t.callee.method() == "from_residual"]
            rets = set(m.return_blocks())
            bad = [bb for bb in member_calls if m.reachable(bb, removed_blocks=seek_blocks + err_blocks) & rets]
            adder(rep, d)(rl, "XCDR1 %s: after the members the decoder moves past the sentinel of the object" % dn,
                          bool(member_calls) and not bad,
                          "a successful return is reachable from the member decoding in bb%s without passing a function that stops only at "
                          "the sentinel (found: %s); the member decoders restore the read position, so whatever follows a nested object is "
                          "read from inside it" % (bad[:2], sorted(b.item_name for b in seekers.values())))
    rep.floor(rk, nagg, 6, "decoders of delimited aggregated objects (4 XCDR2, 2 XCDR1)")
    rep.floor(rk, len(delim), 1, "delimiting functions of the deserializer")
    rep.floor(rl, len(seekers), 1, "sentinel-only seek functions of the XCDR1 deserializer")
    # member ids are compared at the width the header carries (28 bits in an EMHEADER; the serializer writes member_id & 0x0fffffff)
    nid = 0
    for b in impl_fns(fx, DES, 2, "seek_to_pid") + impl_fns(fx, DES, 2, "deserialize_mmember"):
        fc = FnCtx(b)
        nid += 1
        narrow = []
        for bb, i, s in fc.mir.stmts():
            if s.kind == "assign" and s.rv is not None and s.rv.kind == "cast" and s.rv.to_ty in ("u16", "i16", "u8", "i8") and s.rv.from_ty in ("u32", "i32", "u64", "usize"):
                e = fc.rv_expr(s)
                inner = E.strip_casts(e)
                if (inner[0] == "bin" and inner[1] == "BitAnd") or E.mentions_call(e, "get_id"):
                    narrow.append((s.line, fc.show(e)[:80]))
        adder(rep, b)(rm, "XCDR2 %s: the member id is not narrowed below the 28 bits of the EMHEADER" % b.item_name, not narrow,
                      "member id cast to 16 bits before the comparison: two members whose ids agree in the low 16 bits are confused: %s" % narrow[:2],
                      narrow[0][0] if narrow else None)
    rep.floor(rm, nid, 2, "XCDR2 member lookup functions")


def check_lc5_choice(fx, rep, rule):
    """LC 5 in an EMHEADER says: the member is 4 + NEXTINT bytes long and NEXTINT is the member's own first word. That holds for members
    that start with a DHEADER; for a sequence of primitive elements (no DHEADER) the first word is the element count, which is the
    byte length only for one-byte elements. So a function that chooses LC 5 on `kind == SEQUENCE` has to consult the element type."""
    n = 0
    for b in fx.bodies.values():
        if not b.is_fn_like() or b.item_name != "write_header" or "EMheader1" not in (b.impl_self or "") or SER not in b.sname:
            continue
        fc = FnCtx(b)
        m = fc.mir
        has5 = any(s.kind == "assign" and s.rv is not None and s.rv.kind == "use" and s.rv.ops and s.rv.ops[0].const is not None and s.rv.ops[0].const.get("v") == 5
                   for bb, i, s in m.stmts())
        seq_tests = [t.line for bb, t in m.calls() if not t.callee.indirect and t.callee.method() == "eq"
                     and any(E.strip_casts(fc.arg(t, i))[0] == "adt" and E.strip_casts(fc.arg(t, i))[2] == "SEQUENCE" for i in range(len(t.args)))]
        names = {v.get("discr", i): v["name"] for i, v in enumerate(fx.adt("TypeKind")["variants"])}
        for sb, ce in fc.ces.items():
            if ce.is_discr() and E.mentions_call(ce.expr[1], "get_kind") and any(names.get(v) == "SEQUENCE" for v, t in ce.arms):
                seq_tests.append(m.blocks[sb].term.line)
        if not has5:
            continue
        n += 1
        consults = any(not t.callee.indirect and t.callee.method() == "is_element_type_kind_primitive" for bb, t in m.calls()) or \
            any(s.kind == "assign" and s.rv is not None and E.mentions_field(fc.rv_expr(s), "element_type") for bb, i, s in m.stmts())
        adder(rep, b)(rule, "EMHEADER length code 5 is chosen for a sequence only with regard to its element type", not seq_tests or consults,
                      "LC 5 is chosen for every SEQUENCE member (test at line %s) without looking at the element type: for a sequence of primitive "
                      "elements wider than one byte NEXTINT is the element count, not the byte length the length code announces" % seq_tests[:2],
                      seq_tests[0] if seq_tests else None)
    rep.floor(rule, n, 1, "functions choosing EMHEADER length code 5")


def byte_order_impls(fx, rep):
    """R09o: the byte-order strategy types agree with their names on every width: each method of
    `impl EndiannessRead/EndiannessWrite for BigEndian` converts with from_be_bytes / to_be_bytes only, each method of the
    LittleEndian impls with from_le_bytes / to_le_bytes only (a single width converted the other way round-trips in one byte
    order and not in the other)."""
    n = 0
    for b in fx.bodies.values():
        if b.kind != "AssocFn" or not b.impl_trait or not b.impl_self:
            continue
        tr = b.impl_trait.split("::")[-1]
        who = b.impl_self.split("::")[-1]
        if tr not in ("EndiannessRead", "EndiannessWrite") or who not in ("BigEndian", "LittleEndian"):
            continue
        cs = [c.split("::")[-1] for c in (b.sum_calls or ())]
        conv = sorted({c for c in cs if c in ("from_be_bytes", "from_le_bytes", "to_be_bytes", "to_le_bytes", "from_ne_bytes", "to_ne_bytes", "swap_bytes", "to_be", "to_le", "from_be", "from_le")})
        if not conv:
            continue
        n += 1
        want = ("from_" if tr == "EndiannessRead" else "to_") + ("be" if who == "BigEndian" else "le") + "_bytes"
        rep.add("R09o", b.sname, "%s::%s converts with %s only" % (who, b.item_name, want), conv == [want],
                "uses %s: values of this width are byte-swapped in one representation" % conv, b.loc())
    return n


def run(ctx, rep):
    fx = ctx.facts
    no = byte_order_impls(fx, rep)
    rep.floor("R09o", no, 36, "byte-order conversions in the BigEndian / LittleEndian strategy impls")
    # R09a
    for ver, want in ((1, 8), (2, 4)):
        s = impl_fns(fx, SER, ver, "align")
        d = impl_fns(fx, DES, ver, "align")
        if len(s) != 1 or len(d) != 1:
            rep.add("R09a", "EncodingVersion%d::align" % ver, "one align per side", False, "found %d / %d" % (len(s), len(d)))
            continue
        ks, kd = clamp_of(FnCtx(s[0]), "pad"), clamp_of(FnCtx(d[0]), "seek_padding")
        adder(rep, d[0])("R09a", "XCDR%d: serializer and deserializer clamp alignment with the same constant" % ver, ks == kd and ks == want,
                         "serializer pads to min(size, %s), deserializer aligns to min(size, %s) (None = unclamped), XCDR%d maximum alignment is %d" % (ks, kd, ver, want))
    # R09b
    pairs = (("serialize_appendable_type", ("deserialize_appendable_type", "deserialize_appendable_union_type")), ("serialize_mstruct_type", ("deserialize_mstruct_type",)),
             ("serialize_munion_type", ("deserialize_munion_type",)), ("serialize_sequence_type", ("deserialize_sequence_type",)), ("serialize_array_type", ("deserialize_array_type",)))
    npairs = 0
    delim = delimiting_fns(fx)
    for ver in (1, 2):
        for sn, dns in pairs:
            s = impl_fns(fx, SER, ver, sn)
            if len(s) != 1:
                rep.add("R09b", "EncodingVersion%d::%s" % (ver, sn), "serializer method exists", False, "found %d" % len(s))
                continue
            sh = bool(FnCtx(s[0]).calls("Dheader::new"))
            for dn in dns:
                d = impl_fns(fx, DES, ver, dn)
                if len(d) != 1:
                    rep.add("R09b", "EncodingVersion%d::%s" % (ver, dn), "deserializer method exists", False, "found %d" % len(d))
                    continue
                npairs += 1
                fcd = FnCtx(d[0])
                hr = header_reads(fx, fcd, delim)
                dh = len([x for x in hr if x[2] in ("discarded", "delimits")])
                adder(rep, d[0])("R09b", "XCDR%d %s: a DHEADER is consumed exactly when %s writes one" % (ver, dn, sn), (dh == 1) == sh and dh <= 1,
                                 "serializer writes DHEADER: %s; deserializer consumes %d u32 header(s)" % (sh, dh))
    rep.floor("R09b", npairs, 10, "construct x version pairs")
    check_object_extent(fx, rep, "R09k", "R09l", "R09m")
    check_lc5_choice(fx, rep, "R09n")
    for b in fx.bodies.values():
        if not b.is_fn_like() or "::tests::" in b.sname or not b.sum_calls:
            continue
        if b.sname.startswith("<" + SER) or (SER + "::") in b.sname:
            if any(x.endswith("Dheader::new") for x in b.sum_calls):
                adder(rep, b)("R09b", "a DHEADER is written only by XCDR2-specific code", "EncodingVersion2" in (b.impl_self or ""),
                              "Dheader::new called from version-independent / XCDR1 code: XCDR1 has no DHEADER")
        if (DES + "::") in b.sname and any(x.endswith("deserialize_primitive_type") for x in b.sum_calls) and b.item_name != "seek_to_pid":
            fc = FnCtx(b)
            for bb, line, mode in header_reads(fx, fc, delim):
                if mode == "used":
                    continue
                adder(rep, b)("R09b", "a DHEADER is consumed only by XCDR2-specific code", "EncodingVersion2" in (b.impl_self or ""),
                              "a u32 is read and discarded in version-independent / XCDR1 code (the XCDR1 serializer writes no DHEADER there)", line)
    # R09c
    ss = [b for b in fx.bodies.values() if b.item_name == "serialize_string_type" and b.is_fn_like() and SER in b.sname]
    ds = [b for b in fx.bodies.values() if b.item_name == "deserialize_string_type" and b.is_fn_like() and DES in b.sname]
    rep.floor("R09c", len(ss) + len(ds), 2, "string codec functions")
    for b in ss:
        fc = FnCtx(b)
        plus1 = ("Add", 1) in consts_of(fc, ("Add",))
        nul = any((o.const or {}).get("v") == 0 for bb, t in fc.mir.calls() for o in t.args if o.const is not None) or \
            any(E.strip_casts(fc.arg(t, i)) == ("const", 0) or any(x == ("const", 0) for x in E.walk(fc.arg(t, i))) for bb, t in fc.mir.calls() if not t.callee.indirect and t.callee.method() in ("serialize_primitive_type", "write_slice", "push") for i in range(len(t.args)))
        adder(rep, b)("R09c", "string length written is len + 1 and a terminating NUL follows", plus1 and nul, "len+1: %s, NUL written: %s" % (plus1, nul))
    for b in ds:
        fc = FnCtx(b)
        minus1 = any(t.callee.method() == "saturating_sub" and E.strip_casts(fc.arg(t, 1)) == ("const", 1) for bb, t in fc.mir.calls() if not t.callee.indirect and len(t.args) == 2) or ("Sub", 1) in consts_of(fc, ("Sub",))
        rb = bool(fc.calls("Reader::read_byte"))
        adder(rep, b)("R09c", "string of length - 1 bytes is read, then the terminating byte", minus1 and rb, "length-1: %s, terminator consumed: %s" % (minus1, rb))
    # R09d
    for sn, dn in (("serialize_value", "deserialize_value"), ("serialize_elements", "deserialize_sequence_elements")):
        s = [b for b in fx.bodies.values() if b.item_name == sn and b.is_fn_like() and SER in b.sname]
        d = [b for b in fx.bodies.values() if b.item_name == dn and b.is_fn_like() and DES in b.sname]
        if len(s) != 1 or len(d) != 1:
            rep.add("R09d", sn, "one function per side", False, "found %d / %d" % (len(s), len(d)))
            continue
        ts, td = todo_arms(fx, s[0]), todo_arms(fx, d[0])
        adder(rep, d[0])("R09d", "%s and %s support the same type kinds" % (sn, dn), ts is not None and td is not None and ts == td,
                         "unimplemented only in the serializer: %s; only in the deserializer: %s" % (sorted((ts or set()) - (td or set())), sorted((td or set()) - (ts or set()))))
        # R09h: aggregated kinds are handed to the same rule on both sides (AsNested <-> AsNested), so extensibility headers agree
        ka, kd = kind_arms(fx, s[0]) or {}, kind_arms(fx, d[0]) or {}
        for kind in ("STRUCTURE", "UNION"):
            if kind not in ka or kind not in kd or ka[kind][0] or kd[kind][0]:
                continue
            cs = {norm_callee(x) for x in ka[kind][1]} & {"as_nested", "enum_type", "funion_type", "fstruct_type", "as_final"}
            cd2 = {norm_callee(x) for x in kd[kind][1]} & {"as_nested", "enum_type", "funion_type", "fstruct_type", "as_final"}
            adder(rep, d[0])("R09h", "%s / %s: %s members go through the same serialization rule on both sides" % (sn, dn, kind), cs == cd2 and bool(cs),
                             "serializer applies %s, deserializer applies %s (a union or structure written in its FINAL form cannot be read back by AsNested when it is appendable or mutable)" % (sorted(cs), sorted(cd2)))
    # R09i: "primitive element" means the same kinds on both sides (primitive collections have no DHEADER in XCDR2)
    prim = {}
    for b in fx.bodies.values():
        if b.item_name == "is_element_type_kind_primitive" and b.is_fn_like() and "::tests::" not in b.sname:
            fc = FnCtx(b)
            for sb, ce in fc.ces.items():
                if ce.is_discr() and len(ce.arms) > 5:
                    prim[b.sname] = (b, frozenset(v for v, t in ce.arms))
    rep.floor("R09i", len(prim), 2, "is_element_type_kind_primitive functions")
    if len(prim) >= 2:
        names = kind_names(fx)
        vals = list(prim.values())
        same = all(v[1] == vals[0][1] for v in vals)
        diff = set()
        for v in vals:
            diff |= (v[1] ^ vals[0][1])
        adder(rep, vals[-1][0])("R09i", "serializer and deserializer treat the same element kinds as primitive", same,
                                "kinds primitive on one side only: %s — a collection of them is written without and read with a DHEADER (or vice versa) in XCDR2" % sorted(names.get(x, x) for x in diff))
    # R09j: wide strings: the length written counts UTF-16 code units (what the body is made of), plus the terminator
    ws = [b for b in fx.bodies.values() if b.item_name == "serialize_wstring_type" and b.is_fn_like() and SER in b.sname]
    rep.floor("R09j", len(ws), 1, "serialize_wstring_type")
    for b in ws:
        fc = FnCtx(b)
        ok = False
        detail = ""
        for bb, i, s in fc.mir.stmts():
            if s.kind == "assign" and s.rv is not None and s.rv.kind == "binop" and s.rv.op.startswith("Add"):
                e = fc.rv_expr(s)
                one, other = (e[3], e[2]) if E.strip_casts(e[3]) == ("const", 1) else (e[2], e[3])
                if E.strip_casts(one) == ("const", 1) and (E.mentions_call(other, "len") or E.mentions_call(other, "count")):
                    detail = fc.show(other)[:120]
                    ok = E.mentions_call(other, "encode_utf16") and not E.mentions_call(other, "chars")
        adder(rep, b)("R09j", "wstring length prefix = number of UTF-16 code units + 1", ok,
                      "length is computed from %s: the body is written as encode_utf16() units, so a character outside the BMP makes the announced length too short" % (detail or "?"))
    # R09e
    wh =[b for b in fx.bodies.values() if b.item_name == "write_header" and "EMheader1" in (b.impl_self or "") and b.is_fn_like()]
    sp = impl_fns(fx, DES, 2, "seek_to_pid")
    if len(wh) == 1 and len(sp) == 1:
        st = switch_table(FnCtx(wh[0]), lambda ce: not ce.is_discr() and len(ce.arms) == 4)
        dt = switch_table(FnCtx(sp[0]), lambda ce: not ce.is_discr() and len(ce.arms) >= 4)
        inv = st is not None and dt is not None and all(dt.get(lc) == size for size, lc in st.items()) and set(st) == {1, 2, 4, 8}
        adder(rep, sp[0])("R09e", "EMHEADER LC tables are inverse on the sizes 1, 2, 4, 8", inv, "serializer size->LC %s, deserializer LC->size %s" % (st, dt))
    else:
        rep.add("R09e", "EMheader1::write_header / seek_to_pid", "both present", False, "found %d / %d" % (len(wh), len(sp)))
    # R09f
    if len(wh) == 1 and len(sp) == 1:
        cs = consts_of(FnCtx(wh[0]), ("Shl", "BitAnd"))
        cd = consts_of(FnCtx(sp[0]), ("Shr", "BitAnd"))
        ok = ("Shl", 28) in cs and ("Shl", 31) in cs and ("BitAnd", 0x0fffffff) in cs and ("BitAnd", 0x0fffffff) in cd and ("Shr", 28) in cd and ("BitAnd", 0x70000000) in cd
        adder(rep, sp[0])("R09f", "EMHEADER layout: M flag bit 31, LC bits 28..30, member id in the low 28 bits on both sides", ok,
                          "serializer constants %s, deserializer constants %s" % (sorted(cs), sorted(cd)))
    # R09g
    tabs = {}
    for b in fx.bodies.values():
        if b.kind.startswith("Const") and any(b.sname.endswith("::" + n) for n in ("CDR_BE", "CDR_LE", "PL_CDR_BE", "PL_CDR_LE", "CDR2_BE", "CDR2_LE", "D_CDR2_BE", "D_CDR2_LE", "PL_CDR2_BE", "PL_CDR2_LE")):
            mod, name = b.sname.rsplit("::", 1)
            vals = []
            for blk in b.mir.blocks:
                for s in blk.stmts:
                    if s.lhs is not None and s.lhs.local == 0 and s.rv is not None:
                        vals = [o.const.get("v") for o in s.rv.ops if o.const is not None]
            tabs.setdefault(mod, {})[name] = tuple(vals)
    mods = sorted(tabs)
    rep.floor("R09g", len(mods), 3, "modules with a representation-identifier table")
    for mo in mods[1:]:
        common = set(tabs[mods[0]]) & set(tabs[mo])
        diff = {n: (tabs[mods[0]][n], tabs[mo][n]) for n in common if tabs[mods[0]][n] != tabs[mo][n]}
        rep.add("R09g", mo, "representation identifiers equal those of %s" % mods[0].split("::")[-1], not diff and len(common) >= 8, "differences: %s (common %d)" % (diff, len(common)))
