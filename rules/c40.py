"""C40 — #[derive(DdsType)] / #[derive(TypeSupport)] describes and converts types faithfully.

Equality of value -> dynamic data -> value for all values is a runtime property and is not decided. Decided is the agreement of
the three pieces the macro emits for every type — the type description (`Type::TYPE`), `create_sample` and
`create_dynamic_sample` — and the agreement of the description with the attributes written in the source. The rules run over
every derive instance in the analysed crates (builtin topics, QoS policies, TypeObject family, type lookup: 150+ types), i.e. over
the macro's real output, read from the resolved MIR and the promoted constants of `TYPE`:

R40a  member ids: the ids in TYPE.member_list, the ids create_sample reads (remove_value) and the ids create_dynamic_sample writes
      (set_value) are the same set; ids and names are unique; `index` is the member's position
R40b  field binding: create_sample fills field f from the id that TYPE gives the member named f, and create_dynamic_sample stores
      self.f under that id
R40c  declared attributes (parsed from the source item): #[dust_dds(key)] -> is_key, optional / Option<..> -> is_optional,
      id = N -> that id, extensibility -> ExtensibilityKind (default FINAL), nested -> is_nested, name = ".." -> descriptor name
R40d  unions: every discriminator value create_dynamic_sample writes for a variant is a label of that variant's member in TYPE, the
      member id stored is that member's id, and create_sample's match selects the same member for that label
R40e  union variants: `case = N` is one of the member's labels and #[dust_dds(default)] <=> is_default_label, for named, tuple and
      unit variants alike
Besides the instances inside the crates, the same rules run over `fixtures/derive_cases` — a crate of declarations that covers the
attribute combinations the crates themselves do not use (mutable tuple structs with explicit ids, unit default variants, @hashid,
non_serialized, renamed and raw-identifier members) and is compiled against /repo's current macro on every run; if a declaration of
the documented language no longer compiles, the check fails closed.
"""
import os, re
from vplib import expr as E
from rules.common import FnCtx, adder

TECHNIQUE = "sibling agreement of the three generated items per derive instance (MIR + promoted constants of TYPE) and agreement with the source attributes (item-level syntax query)"
ASSUMPTIONS = ["attribute paths the analysed crates do not use (e.g. hashid) are only covered as far as instances exist; evidence lists the instance count per attribute"]

REPO = "/repo"


def type_name_of(sname):
    m = re.match(r"^<(.+?) as ", sname)
    return m.group(1) if m else None


def const_val(e):
    e = E.strip_casts(e)
    if e[0] == "const":
        return e[1]
    if e[0] == "str":
        return e[1]
    return None


def read_type_const(b):
    """(descriptor dict, [member dict]) from the promoted constants of a `TYPE` associated const"""
    desc, members = {}, []
    for pm in (b.promoted or []):
        eb = E.ExprBuilder(pm, b)
        for blk in pm.blocks:
            for s in blk.stmts:
                if s.rv is None or s.rv.kind != "aggregate" or s.rv.agg.get("k") != "adt":
                    continue
                adt = str(s.rv.agg.get("adt", ""))
                flds = s.rv.agg.get("fields") or []
                e = eb.rvalue(s.rv, 0)
                if adt.endswith("MemberDescriptor"):
                    d = {}
                    for f, v in zip(flds, e[3]):
                        if f in ("name", "id", "index", "is_key", "is_optional", "is_must_understand", "is_default_label", "is_external"):
                            d[f] = const_val(v)
                        elif f == "label":
                            d[f] = [const_val(x) for y in E.walk(v) if y[0] == "agg" and y[1] == "array" for x in y[2]]
                    members.append(d)
                elif adt.endswith("TypeDescriptor"):
                    for f, v in zip(flds, e[3]):
                        v0 = E.strip_casts(v)
                        if f == "name":
                            desc["name"] = const_val(v)
                        elif f in ("kind", "extensibility_kind") and v0[0] == "adt":
                            desc[f] = v0[2]
                        elif f == "is_nested":
                            desc[f] = const_val(v)
    members.sort(key=lambda d: (d.get("index") if isinstance(d.get("index"), int) else 1 << 30))
    return desc, members


def ids_in_calls(fc, method, argi):
    out = []
    for bb, t in fc.mir.calls():
        if not t.callee.indirect and t.callee.method() == method and len(t.args) > argi:
            out.append((const_val(fc.arg(t, argi)), bb, t))
    return out


def source_item(file, line, root=None):
    """text of the struct / enum item declared at file:line including its leading attributes; None if unreadable"""
    p = os.path.join(root or REPO, file)
    try:
        L = open(p).read().split("\n")
    except OSError:
        return None
    i = line - 1
    start = i
    while start > 0 and (L[start - 1].strip().startswith("#[") or L[start - 1].strip().startswith("///") or L[start - 1].strip().startswith("//") or
                         (L[start - 1].strip().endswith(")]") and not L[start - 1].strip().startswith("pub"))):
        start -= 1
    depth, j, seen = 0, i, False
    while j < len(L):
        depth += L[j].count("{") - L[j].count("}")
        if "{" in L[j]:
            seen = True
        if L[j].rstrip().endswith(";") and not seen:
            break
        if seen and depth <= 0:
            break
        j += 1
    return "\n".join(L[start:j + 1])


def parse_struct_fields(text):
    """[(field name, attrs string, type string)] of a named-field struct"""
    m = re.search(r"struct\s+\w+[^{;]*\{(.*)\}\s*$", text, re.S)
    if not m:
        return None
    body = m.group(1)
    out = []
    attrs = ""
    for raw in re.split(r"\n", body):
        ln = raw.strip()
        if not ln or ln.startswith("//"):
            continue
        if ln.startswith("#["):
            attrs += ln
            continue
        fm = re.match(r"(?:pub(?:\([^)]*\))?\s+)?(r#)?(\w+)\s*:\s*(.+?),?\s*(?://.*)?$", ln)
        if fm:
            out.append((fm.group(2), attrs, fm.group(3)))
            attrs = ""
    return out


def run(ctx, rep):
    # 1. every derive instance inside the analysed crates
    check_instances(ctx.facts, rep, REPO, lambda f: f.startswith("dds/"), (120, 100, 8), "")
    # 2. the declarations of fixtures/derive_cases, compiled against /repo's current macro: attribute combinations the crates
    #    themselves do not use (tuple structs with explicit ids, unit default variants, hashid, non_serialized, renamed types)
    from vplib import extract, facts as F
    p = extract.facts_for_derive_cases()
    dfx = F.load_facts([p])
    root = os.path.join(os.path.dirname(os.path.dirname(os.path.abspath(__file__))), "fixtures", "derive_cases")
    check_instances(dfx, rep, root, lambda f: True, (12, 8, 3), "derive_cases: ")


def check_instances(fx, rep, root, file_ok, floors, tag):
    types = {}
    for b in fx.bodies.values():
        if b.kind.startswith("AssocConst") and b.sname.endswith("::TYPE") and "type_support::Type>" in b.sname:
            types[type_name_of(b.sname)] = b
    derived = []
    for b in fx.bodies.values():
        if b.item_name == "create_sample" and b.is_fn_like() and "::tests::" not in b.sname and b.impl_self in types:
            fc = FnCtx(b)
            def is_derive(x):
                x = str(x)
                return x.startswith("dust_dds_derive::") or x.endswith("type_support::DdsType") or x.endswith("type_support::TypeSupport")
            if any(t.exp and any(is_derive(x) for x in t.exp) for bb, t in fc.mir.calls()) or \
                    any(s.exp and any(is_derive(x) for x in (s.exp if isinstance(s.exp, list) else [s.exp])) for bb, i, s in fc.mir.stmts() if getattr(s, "exp", None)):
                derived.append((b, fc))
    rep.floor("R40a" + ("@cases" if tag else ""), len(derived), floors[0], tag + "derive instances (create_sample generated by dust_dds_derive)")
    attr_count = {"key": 0, "optional": 0, "id": 0, "extensibility": 0, "nested": 0, "name": 0, "union": 0}
    n_struct = n_union = 0
    for b, fc in sorted(derived, key=lambda x: x[0].sname):
        tname = b.impl_self
        short = tname.split("::")[-1]
        tb = types[tname]
        desc, members = read_type_const(tb)
        sib = [x for x in fx.bodies.values() if x.item_name == "create_dynamic_sample" and x.impl_self == tname and x.is_fn_like()]
        add = adder(rep, b)
        if len(sib) != 1:
            add("R40a", "%s has create_dynamic_sample" % short, False, "found %d" % len(sib))
            continue
        sf = FnCtx(sib[0])
        kind = desc.get("kind")
        type_ids = [m.get("id") for m in members]
        if kind == "STRUCTURE":
            n_struct += 1
            rd = [i for i, bb, t in ids_in_calls(fc, "remove_value", 1)]
            wr = [i for i, bb, t in ids_in_calls(sf, "set_value", 1)]
            ok = set(rd) == set(wr) == set(type_ids) and None not in type_ids
            add("R40a", "%s: ids described, read and written are the same set" % short, ok,
                "TYPE %s, create_sample reads %s, create_dynamic_sample writes %s" % (sorted(map(str, type_ids)), sorted(map(str, rd)), sorted(map(str, wr))))
            add("R40a", "%s: member ids and names are unique and index is the position" % short,
                len(set(type_ids)) == len(type_ids) and len({m.get("name") for m in members}) == len(members) and [m.get("index") for m in members] == list(range(len(members))),
                "members %s" % [(m.get("name"), m.get("id"), m.get("index")) for m in members])
            # R40b field binding
            by_name = {m.get("name"): m.get("id") for m in members}
            bind_r = {}
            for bb, i, s in fc.mir.stmts():
                if s.kind == "assign" and s.rv is not None and s.rv.kind == "aggregate" and s.rv.agg.get("k") == "adt" and str(s.rv.agg.get("adt", "")) == tname:
                    flds = s.rv.agg.get("fields") or []
                    e = fc.rv_expr(s)
                    for f, v in zip(flds, e[3]):
                        ids = [const_val(x[2][1]) for x in E.walk(v) if x[0] == "call" and x[1].endswith("::remove_value") and len(x[2]) > 1]
                        if ids:
                            bind_r[f] = ids[0]
            bind_w = {}
            for i, bb, t in ids_in_calls(sf, "set_value", 1):
                v = sf.arg(t, 2)
                for x in E.walk(v):
                    if x[0] == "param" and x[1] == 1 and x[2]:
                        bind_w[x[2][0]] = i
                        break
            # tuple structs: field names are 0,1,..: TYPE names them by position too
            named = all(not str(f).isdigit() for f in bind_r)
            if named and bind_r:
                bad = {f: (i, by_name.get(f)) for f, i in bind_r.items() if f in by_name and by_name[f] != i}
                bad.update({f: (i, bind_r.get(f)) for f, i in bind_w.items() if f in bind_r and bind_r[f] != i})
                add("R40b", "%s: every field is read from and written to the id TYPE gives the member of the same name" % short, not bad and set(bind_r) == set(bind_w),
                    "mismatches %s; fields read %s, written %s" % (bad, sorted(bind_r), sorted(bind_w)))
            # R40c source attributes
            a = [x for x in fx.adts.values() if x["name"] == tname]
            if len(a) == 1 and file_ok(a[0].get("file", "")):
                text = source_item(a[0]["file"], a[0]["line"], root)
                fields = parse_struct_fields(text) if text else None
                if fields:
                    hm0 = re.search(r"^\s*(?:pub(?:\([^)]*\))?\s+)?struct\s+%s\b" % re.escape(short), text, re.M)
                    head = text[:hm0.start()] if hm0 else ""
                    # attribute lines only (doc comments may mention the keywords)
                    head = "\n".join(l for l in head.split("\n") if not l.strip().startswith("//"))
                    hm = re.search(r"extensibility\s*=\s*\"(\w+)\"", head)
                    want_ext = {"final": "Final", "appendable": "Appendable", "mutable": "Mutable"}[hm.group(1)] if hm else "Final"
                    if hm:
                        attr_count["extensibility"] += 1
                    add("R40c", "%s: extensibility in TYPE is the declared one" % short, desc.get("extensibility_kind") == want_ext, "declared %s, TYPE says %s" % (want_ext, desc.get("extensibility_kind")))
                    nm = re.search(r"dust_dds\([^)]*name\s*=\s*\"([^\"]+)\"", head)
                    want_name = nm.group(1) if nm else short
                    attr_count["name"] += 1 if nm else 0
                    add("R40c", "%s: type name in TYPE is the declared one" % short, desc.get("name") == want_name, "declared %s, TYPE says %s" % (want_name, desc.get("name")))
                    want_nested = bool(re.search(r"dust_dds\([^)]*\bnested\b", head))
                    attr_count["nested"] += 1 if want_nested else 0
                    add("R40c", "%s: nested flag in TYPE is the declared one" % short, bool(desc.get("is_nested")) == want_nested, "declared %s, TYPE says %s" % (want_nested, desc.get("is_nested")))
                    mem = {m.get("name"): m for m in members}
                    for fname, attrs, fty in fields:
                        if "non_serialized" in attrs:
                            add("R40c", "%s.%s: non_serialized member is not described" % (short, fname), fname not in mem, "described although non_serialized")
                            continue
                        m = mem.get(fname)
                        if m is None:
                            add("R40c", "%s.%s is described in TYPE" % (short, fname), False, "no member of that name (names: %s)" % sorted(mem))
                            continue
                        key = bool(re.search(r"dust_dds\([^)]*\bkey\b", attrs))
                        attr_count["key"] += 1 if key else 0
                        add("R40c", "%s.%s: is_key reflects #[dust_dds(key)]" % (short, fname), bool(m.get("is_key")) == key, "declared key=%s, TYPE says %s" % (key, m.get("is_key")))
                        opt = bool(re.search(r"dust_dds\([^)]*\boptional\b", attrs))
                        attr_count["optional"] += 1 if opt else 0
                        if opt:
                            add("R40c", "%s.%s: is_optional reflects #[dust_dds(optional)]" % (short, fname), bool(m.get("is_optional")), "declared optional, TYPE says %s" % m.get("is_optional"))
                        if re.search(r"dust_dds\([^)]*\bhashid\b", attrs):
                            import hashlib, struct
                            attr_count["hashid"] = attr_count.get("hashid", 0) + 1
                            want_id = struct.unpack("<I", hashlib.md5(fname.encode()).digest()[:4])[0] & 0x0FFFFFFF
                            add("R40c", "%s.%s: @hashid id = first 4 bytes (LE) of md5(name) & 0x0FFFFFFF" % (short, fname), m.get("id") == want_id,
                                "declared hashid: DDS-XTypes 7.3.1.2.1.1 gives 0x%08x, TYPE says %s — an id above 28 bits does not fit the EMHEADER member id, so a mutable member written under it is not found again by the reader"
                                % (want_id, ("0x%08x" % m.get("id")) if isinstance(m.get("id"), int) else m.get("id")))
                        im = re.search(r"dust_dds\([^)]*\bid\s*=\s*([\w:]+)", attrs)
                        if im and im.group(1).isdigit():
                            attr_count["id"] += 1
                            add("R40c", "%s.%s: id is the declared one" % (short, fname), m.get("id") == int(im.group(1)), "declared id=%s, TYPE says %s" % (im.group(1), m.get("id")))
        elif kind == "UNION":
            n_union += 1
            attr_count["union"] += 1
            # discriminators written with member ids
            wr = ids_in_calls(sf, "set_value", 1)
            by_id = {m.get("id"): m for m in members}
            # group set_value calls per block chain: a variant arm writes set_value(0, disc) then set_value(member_id, ..)
            disc_writes = [(bb, t) for i, bb, t in wr if i == 0]
            mem_writes = [(i, bb, t) for i, bb, t in wr if i != 0]
            bad = []
            for i, bb, t in mem_writes:
                # the discriminator write that dominates this member write
                ds = [(db, dt) for db, dt in disc_writes if sf.mir.dominates(db, bb)]
                if not ds:
                    bad.append("member %s written without a discriminator" % i)
                    continue
                db, dt = max(ds, key=lambda x: len(sf.mir.dominators().get(x[0]) or ()))
                dv = None
                for x in E.walk(sf.arg(dt, 2)):
                    if x[0] == "const" and isinstance(x[1], int):
                        dv = x[1]
                m = by_id.get(i)
                if m is None:
                    bad.append("member id %s is not described" % i)
                elif dv is not None and dv not in (m.get("label") or []) and not m.get("is_default_label"):
                    bad.append("variant %s is written with discriminator %s but its labels are %s" % (m.get("name"), dv, m.get("label")))
            add("R40d", "%s: every variant is written with one of its own labels and its own member id" % short, not bad and bool(members), "; ".join(bad)[:300])
            # R40e: the variants' attributes as written in the source
            a = [x for x in fx.adts.values() if x["name"] == tname]
            if len(a) == 1 and file_ok(a[0].get("file", "")):
                text = source_item(a[0]["file"], a[0]["line"], root)
                vm = re.search(r"enum\s+%s\b[^{]*\{(.*)\}\s*$" % re.escape(short), text or "", re.S)
                if vm:
                    attrs = ""
                    depth = 0
                    mem = {m.get("name"): m for m in members}
                    for raw in vm.group(1).split("\n"):
                        ln = raw.strip()
                        if depth == 0 and ln.startswith("#["):
                            attrs += ln
                        elif depth == 0 and re.match(r"[A-Z]\w*", ln):
                            vname = re.match(r"([A-Z]\w*)", ln).group(1)
                            m = mem.get(vname)
                            if m is not None:
                                dflt = bool(re.search(r"dust_dds\([^)]*\bdefault\b", attrs))
                                add("R40e", "%s::%s: is_default_label reflects #[dust_dds(default)]" % (short, vname), bool(m.get("is_default_label")) == dflt,
                                    "declared default=%s, TYPE says %s: a received discriminator outside every case list %s" % (dflt, m.get("is_default_label"), "is rejected instead of selecting this variant" if dflt else "would select this variant"))
                                cm = re.search(r"case\s*=\s*(-?\d+)", attrs)
                                if cm:
                                    add("R40e", "%s::%s: case label is described" % (short, vname), int(cm.group(1)) in (m.get("label") or []),
                                        "declared case=%s, TYPE labels %s" % (cm.group(1), m.get("label")))
                            else:
                                add("R40e", "%s::%s is described in TYPE" % (short, vname), False, "no member of that name (names: %s)" % sorted(map(str, mem)))
                            attrs = ""
                        depth += ln.count("{") + ln.count("(") - ln.count("}") - ln.count(")")
            rd = {i for i, bb, t in ids_in_calls(fc, "remove_value", 1)}
            add("R40d", "%s: create_sample reads the discriminator and only described member ids" % short, 0 in rd and (rd - {0}) <= set(type_ids),
                "reads %s, described %s" % (sorted(map(str, rd)), sorted(map(str, type_ids))))
    rep.floor("R40a" + ("@cases" if tag else ""), n_struct, floors[1], tag + "derived structures")
    rep.floor("R40d" + ("@cases" if tag else ""), n_union, floors[2], tag + "derived unions")
    rep.extra["attribute_instances" + ("_derive_cases" if tag else "")] = attr_count
