"""C15 — Endpoint matching follows the DDS RxO table on both sides (structure of the comparisons).

R15a  from get_discovered_reader_incompatible_qos_policy_list (writer side) and
      get_discovered_writer_incompatible_qos_policy_list (reader side) the guarding comparison(s) of every
      `push(<POLICY_ID>)` are extracted and normalised to "offered <op> requested"; each side must realise
      exactly the DDS 1.4 §2.2.3 row of that policy
R15b  the two sides are mirror images (same normalised table) — both reach the same verdict
R15c  an ordering comparison on a multi-field struct whose PartialOrd is derived (lexicographic) is not a
      valid realisation of a row: liveliness must compare kind and lease_duration separately
R15d  the hand-written partial_cmp of the QoS kind enums are the total orders of the specification
      (decision tables extracted from MIR paths)
R15e  a non-empty incompatible list leads to the incompatible-QoS bookkeeping and never to add_matched_*;
      matching additionally requires topic-name, type and partition agreement
Partition pattern matching and type assignability themselves are value-level and not decided.
"""
from vplib import expr as E
from vplib.facts import path_endswith, short_ty, Place
from vplib.flow import SWAP
from vplib.patheval import PathEvaluator
from rules.common import FnCtx, cmp_norm, adder

TECHNIQUE = "comparison extraction + normalisation against a transcribed RxO table, mirror check between sibling functions, derived-PartialOrd type rule, decision-table extraction for enum orders"
ASSUMPTIONS = ["DDS 1.4 §2.2.3 RxO rows transcribed in SPEC below"]

# incompatible iff  offered <rel> requested   (per compared field)
SPEC = {
    "DURABILITY": {("kind",): "Lt"},
    "PRESENTATION": {("access_scope",): "Lt", ("coherent_access",): "Ne", ("ordered_access",): "Ne"},
    "DEADLINE": {("period",): "Gt"},
    "LATENCYBUDGET": {("duration",): "Gt"},
    "LIVELINESS": {("kind",): "Lt", ("lease_duration",): "Gt"},
    "RELIABILITY": {("kind",): "Lt"},
    "DESTINATIONORDER": {("kind",): "Lt"},
    "OWNERSHIP": {("kind",): "Ne"},
}
SINGLE_FIELD = {"DurabilityQosPolicy": "kind", "DeadlineQosPolicy": "period", "LatencyBudgetQosPolicy": "duration",
                "DestinationOrderQosPolicy": "kind", "OwnershipQosPolicy": "kind", "ReliabilityQosPolicy": "kind"}


def policy_of_const(e):
    if e[0] == "named":
        n = e[1].split("::")[-1]
        if n.endswith("_QOS_POLICY_ID"):
            return n[:-len("_QOS_POLICY_ID")]
    return None


def side_of(e, offered_params):
    ps = {s[1] for s in E.walk(e) if s[0] == "param"}
    if not ps:
        return None
    if ps <= set(offered_params):
        return "offered"
    if not (ps & set(offered_params)):
        return "requested"
    return None


def last_field(e):
    e = E.strip_casts(e)
    if e[0] in ("param", "local") and e[2]:
        return e[2][-1]
    if e[0] == "call":
        if e[4]:
            return e[4][-1]
        return e[1].split("::")[-1]      # accessor name: durability(), liveliness() ...
    return None


def extract(fx, b, offered_params, rep):
    fc = FnCtx(b)
    m = fc.mir
    add = adder(rep, b)
    switches = list(fc.ces.keys())
    table = {}
    derived_cmp = []
    def pol_of(t):
        # the pushed constant is a named const item (its scalar value is folded in the expression form)
        c = t.args[1].const if len(t.args) > 1 else None
        if c and c.get("def_name"):
            return policy_of_const(("named", c["def_name"]))
        return None
    pushes = [(bb, t) for bb, t in fc.calls("Vec::push") if pol_of(t)]
    events = [(bb, pol_of(t)) for bb, t in pushes]
    # a verdict that names the policy first (`let v = if .. { Err(LIVELINESS_QOS_POLICY_ID) } ..; if let Err(id) = v { list.push(id) }`)
    for bb, i, s in m.stmts():
        if s.kind == "assign" and s.rv is not None and s.rv.kind == "aggregate" and s.rv.agg.get("k") == "adt":
            for o in s.rv.ops:
                c = o.const
                if c and c.get("def_name") and policy_of_const(("named", c["def_name"])):
                    events.append((bb, policy_of_const(("named", c["def_name"]))))
    for bb, pol in events:
        rows = table.get(pol, {})
        for sb, ce in fc.ces.items():
            if ce.true_target is None:
                continue
            for outcome, tgt in (("true", ce.true_target), ("false", ce.false_target)):
                if tgt is None or bb not in m.reachable(tgt, removed_blocks=[x for x in switches if x != bb]):
                    continue
                c = cmp_norm(E.strip_casts(ce.expr))
                if c is None:
                    rows[("?", fc.show(ce.expr)[:60])] = "?"
                    continue
                op, x, y = c
                if outcome == "false":
                    op = {"Lt": "Ge", "Ge": "Lt", "Gt": "Le", "Le": "Gt", "Eq": "Ne", "Ne": "Eq"}[op]
                sx, sy = side_of(x, offered_params), side_of(y, offered_params)
                if sx == "requested" and sy == "offered":
                    op = SWAP[op]
                    x, y = y, x
                elif not (sx == "offered" and sy == "requested"):
                    rows[("?", fc.show(ce.expr)[:60])] = "unattributed"
                    continue
                # compared type (for whole-policy comparisons the single field is implied)
                term = fc.eb.terms.get(E.strip_casts(ce.expr)[3]) if E.strip_casts(ce.expr)[0] == "call" else None
                ty = short_ty(term.callee.self_ty or "") if term is not None and term.callee.self_ty else None
                fld = last_field(x)
                if ty in SINGLE_FIELD:
                    fld = SINGLE_FIELD[ty]
                elif ty and ty.endswith("QosPolicy"):
                    # multi-field policy compared as a whole
                    derived = any(im["trait"].endswith("PartialOrd") and short_ty(im["self_ty"]) == ty and im["derived"] for im in fx.impls)
                    nfields = len(fx.adt(ty)["variants"][0]["fields"]) if ty in [a["name"].split("::")[-1] for a in fx.adts.values()] else 0
                    if op in ("Lt", "Le", "Gt", "Ge") and derived and nfields >= 2:
                        derived_cmp.append((pol, ty, op, m.blocks[sb].term.line))
                    fld = "<whole %s>" % ty
                rows[(fld,)] = op
        table[pol] = rows
    return table, derived_cmp, len({(bb, pol) for bb, pol in events})


def enum_order_tables(fx, rep):
    n = 0
    for ty in ("DurabilityQosPolicyKind", "ReliabilityQosPolicyKind", "LivelinessQosPolicyKind",
               "DestinationOrderQosPolicyKind", "PresentationQosPolicyAccessScopeKind"):
        try:
            b = fx.fn(ty, "partial_cmp", trait="PartialOrd")
        except Exception:
            # derived order: declaration order, fine if derived on a field-less enum
            der = any(im["trait"].endswith("PartialOrd") and short_ty(im["self_ty"]) == ty and im["derived"] for im in fx.impls)
            rep.add("R15d", ty, "order of %s is the declaration order (derived) or a checked table" % ty, der, "no PartialOrd impl found", "")
            continue
        adt = fx.adt(ty)
        names = [v["name"] for v in adt["variants"]]
        d2i = {(v["discr"] if v.get("discr") is not None else k): k for k, v in enumerate(adt["variants"])}
        pe = PathEvaluator(b.mir, b, max_paths=1024)
        results = {}
        for env, trail in pe.paths():
            ret = env.env.get(0)
            i = j = None
            for ce, val in env.constraints:
                if ce[0] != "discr":
                    continue
                subj = E.strip_casts(ce[1])
                # `match (self, other)`: the scrutinee is a field of the tuple built from the two parameters
                for _ in range(3):
                    if subj[0] == "agg" and subj[1] == "tuple" and subj[3] and str(subj[3][0]).isdigit() and int(subj[3][0]) < len(subj[2]):
                        rest = tuple(subj[3][1:])
                        subj = E.strip_casts(subj[2][int(subj[3][0])])
                        if rest:
                            subj = E.with_path(subj, rest)
                    elif subj[0] == "proj" and subj[1][0] == "agg":
                        subj = ("agg", subj[1][1], subj[1][2], tuple(subj[1][3]) + tuple(subj[2]))
                    else:
                        break
                if subj[0] == "param" and isinstance(val, tuple) and val[0] in ("in", "notin"):
                    # several variants can share one arm (`A | B => ..`); `otherwise` stands for the variants not listed
                    vs = [d2i.get(x) for x in val[1]] if val[0] == "in" else [k for dv, k in d2i.items() if dv not in val[1]]
                    vs = [x for x in vs if x is not None]
                    if subj[1] == 1:
                        i = vs
                    elif subj[1] == 2:
                        j = vs
            if i is None or j is None or ret is None:
                continue
            o = None
            if ret[0] == "adt" and ret[2] == "Some" and ret[3] and ret[3][0][0] == "adt":
                o = ret[3][0][2]
            for ii in i:
                for jj in j:
                    results[(ii, jj)] = o
        for i in range(len(names)):
            for j in range(len(names)):
                n += 1
                want = "Less" if i < j else ("Greater" if i > j else "Equal")
                got = results.get((i, j))
                rep.add("R15d", b.sname, "%s vs %s" % (names[i], names[j]), got == want,
                        "partial_cmp(%s, %s) = %s, the specification order (declaration order) requires %s" % (names[i], names[j], got, want), b.loc())
    return n


def switch_on_named(fc, name, outcome="true"):
    out = []
    m = fc.mir
    for bb, ce in fc.ces.items():
        t = m.blocks[bb].term
        op = t.discr
        neg = False
        for _ in range(6):
            if op.place is None or not op.place.is_local():
                break
            if m.name_of(op.place.local) == name:
                tt, ft = ce.true_target, ce.false_target
                # ce targets already fold Not; recompute from raw arms for the named local itself
                f = [tg for v, tg in t.arms if v == 0]
                raw_t, raw_f = t.otherwise, (f[0] if f else None)
                if neg:
                    raw_t, raw_f = raw_f, raw_t
                out.append((bb, raw_t if outcome == "true" else raw_f))
                break
            ds = m.whole_defs(op.place.local)
            if len(ds) != 1 or ds[0][0] != "s":
                break
            rv = ds[0][3].rv
            if rv.kind == "use":
                op = rv.ops[0]
            elif rv.kind == "unop" and rv.op == "Not":
                neg = not neg
                op = rv.ops[0]
            else:
                break
    return out


def matching(fx, rep):
    n = 0
    for name, matched, incompatible in (("process_discovered_readers", "add_matched_reader", "add_incompatible_subscription"),
                                        ("process_discovered_writers", "add_matched_writer", "add_requested_incompatible_qos")):
        b = fx.fn("DcpsDomainParticipant", name)
        fc = FnCtx(b)
        add = adder(rep, b)
        g_empty = fc.guards(lambda ce: "true" if (E.is_call(E.strip_casts(ce.expr), "Vec::is_empty") and E.mentions_call(ce.expr, "get_discovered_reader_incompatible_qos_policy_list", "get_discovered_writer_incompatible_qos_policy_list")) else None)
        g_nonempty = fc.guards(lambda ce: "false" if (E.is_call(E.strip_casts(ce.expr), "Vec::is_empty") and E.mentions_call(ce.expr, "get_discovered_reader_incompatible_qos_policy_list", "get_discovered_writer_incompatible_qos_policy_list")) else None)
        mt = [bb for bb, t in fc.calls(matched)]
        ic = [bb for bb, t in fc.calls(incompatible)]
        n += len(mt) + len(ic)
        add("R15e", "%s only when the incompatible-policy list is empty" % matched, bool(mt) and bool(g_empty) and fc.only_through(mt, g_empty),
            "endpoint matched although incompatible policies were found")
        add("R15e", "%s only when the list is non-empty" % incompatible, bool(ic) and bool(g_nonempty) and fc.only_through(ic, g_nonempty),
            "incompatibility reported for a compatible endpoint")
        for var in ("is_partition_matched", "is_matched_topic_name", "is_matched_type"):
            g = switch_on_named(fc, var, "true")
            add("R15e", "%s requires %s" % (matched, var), bool(g) and fc.only_through(mt, g), "match reachable without %s being true" % var)
    return n


def run(ctx, rep):
    fx = ctx.facts
    w = fx.fn(free="get_discovered_reader_incompatible_qos_policy_list")
    r = fx.fn(free="get_discovered_writer_incompatible_qos_policy_list")
    tw, dw, nw = extract(fx, w, offered_params=(1, 3), rep=rep)
    tr, dr, nr = extract(fx, r, offered_params=(2,), rep=rep)
    rep.floor("R15a", nw + nr, 18, "policy-id pushes on both sides")
    for side, b, tab in (("writer side", w, tw), ("reader side", r, tr)):
        for pol, want in SPEC.items():
            got = tab.get(pol)
            if got is None:
                rep.add("R15a", b.sname, "%s row present (%s)" % (pol, side), False, "no push of %s_QOS_POLICY_ID" % pol, b.loc())
                continue
            whole = [k for k in got if k[0] and str(k[0]).startswith("<whole")]
            if whole:
                rep.add("R15a", b.sname, "%s compares the fields of the policy separately (%s)" % (pol, side), False,
                        "%s is compared as a whole (%s): derived lexicographic order, so e.g. with equal kinds a SHORTER offered "
                        "lease than requested is declared incompatible and a longer one compatible — the opposite of the RxO rule"
                        % (pol, dict((str(k), v) for k, v in got.items())), b.loc())
                continue
            rep.add("R15a", b.sname, "%s: incompatible iff %s (%s)" % (pol, " or ".join("offered.%s %s requested" % (k[0], v) for k, v in want.items()), side),
                    got == want, "extracted %s" % dict((str(k), v) for k, v in got.items()), b.loc())
    for pol in sorted(set(tw) | set(tr)):
        if pol == "DATA_REPRESENTATION":
            # set-membership row (value level): only its presence on both sides is required
            rep.add("R15b", w.sname, "DATA_REPRESENTATION is tested on both sides", pol in tw and pol in tr, "missing on one side", w.loc())
            continue
        rep.add("R15b", w.sname, "%s: both sides apply the same rule" % pol, tw.get(pol) == tr.get(pol),
                "writer side %s vs reader side %s" % (tw.get(pol), tr.get(pol)), w.loc())
    for b, lst in ((w, dw), (r, dr)):
        for pol, ty, op, line in lst:
            rep.add("R15c", b.sname, "no ordering comparison through a derived multi-field PartialOrd (%s)" % ty, False,
                    "%s %s %s uses #[derive(PartialOrd)] on a %s with several fields" % (ty, op, ty, ty), b.loc(line))
    n = enum_order_tables(fx, rep)
    rep.floor("R15d", n, 4 + 16 + 9 + 4, "enum order table cells")
    k = matching(fx, rep)
    rep.floor("R15e", k, 4, "match / incompatible bookkeeping calls")
    # R15f: partition pattern translation keeps the order of the pattern: every direct write to the output
    # regex is preceded, since the last such write, by a flush of the pending literal characters
    f = fx.fn(free="fnmatch_to_regex")
    ff = FnCtx(f)
    m = ff.mir
    outs = []
    for bb, t in ff.calls("String::push_str", "String::push"):
        # receiver is the local variable `out` (chase the `&mut out` temporary)
        op = t.args[0]
        name = None
        for _ in range(4):
            if op.place is None:
                break
            name = m.name_of(op.place.local)
            if name:
                break
            ds = m.whole_defs(op.place.local)
            if len(ds) == 1 and ds[0][0] == "s" and ds[0][3].rv.kind in ("ref", "use"):
                rv = ds[0][3].rv
                from vplib.facts import Operand
                nxt = rv.place.local if rv.kind == "ref" else (rv.ops[0].place.local if rv.ops[0].place else None)
                if nxt is None:
                    break
                name = m.name_of(nxt)
                break
            break
        if name == "out":
            outs.append((bb, t))
    flushes = [bb for bb, t in ff.calls("flush_literal")]
    rep.floor("R15f", len(outs), 5, "direct writes to the output regex in fnmatch_to_regex")
    ob = [bb for bb, _ in outs]
    for bb, t in outs:
        # start from any other output write (or the function entry): reaching this write requires a flush
        starts = [0] + [x for x in ob if x != bb]
        bad = [s for s in starts if bb in m.reachable(m.blocks[s].term.target if s != 0 and m.blocks[s].term.target is not None else s,
                                                      removed_blocks=flushes + [x for x in ob if x != bb])]
        # the very first write (`^` is the initial value, not a push) and writes right after a flush are fine
        rep.add("R15f", f.sname, "output regex is written only after the pending literal was flushed", not bad,
                "a wildcard is emitted while literal characters collected before it are still pending: `A?C` becomes `^.AC$` "
                "(literal and wildcard swap places)", f.loc(t.line))
