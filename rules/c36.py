"""C36 — Entity deletion follows the DDS preconditions (structural).

R36a  each removal (remove_publisher, remove_subscriber, the topic retain, domain_participant_list.remove)
      is reached only through the "empty / unused" edge of its precondition test, and the topic-in-use
      comparisons lead to PreconditionNotMet without removing
R36b  (confirmed-majority sibling rule) every lookup of an entity by handle in the *_methods functions
      answers the not-found edge with DdsError::AlreadyDeleted
R36c  delete_participant_contained_entities empties every collection that DomainParticipantEntity::is_empty
      tests, so that the participant is deletable afterwards
R36d  the topic-in-use test of delete_user_defined_topic also covers content-filtered topics that
      reference the topic (readers on such topics use it)
"""
from vplib import expr as E
from vplib.facts import short_ty
from rules.common import FnCtx, cmp_norm, adder

TECHNIQUE = "guard dominance for removals, field-set agreement between is_empty and delete_contained_entities, majority sibling rule on not-found edges"
ASSUMPTIONS = []

LISTS = ("user_defined_publisher_list", "user_defined_subscriber_list", "data_writer_list", "data_reader_list", "locally_created_topic_list",
         "domain_participant_list", "content_filtered_topic_list")


def field_of(e):
    if e[0] in ("param", "local") and e[2]:
        return e[2][-1]
    if e[0] == "call" and e[4]:
        return e[4][-1]
    return None


def empty_guard(fc, lst):
    def p(ce):
        e = E.strip_casts(ce.expr)
        if E.is_call(e, "Vec::is_empty") and E.mentions_field(e, lst):
            return "true"
        return None
    return fc.guards(p)


def removal_rules(fx, rep):
    n = 0
    for fn, lst, remover in (("delete_user_defined_publisher", "data_writer_list", "remove_publisher"),
                             ("delete_user_defined_subscriber", "data_reader_list", "remove_subscriber")):
        b = fx.fn("DcpsDomainParticipant", fn)
        fc = FnCtx(b)
        add = adder(rep, b)
        rem = [bb for bb, t in fc.calls(remover)]
        g = empty_guard(fc, lst)
        n += len(rem)
        add("R36a", "%s only when %s is empty" % (remover, lst), bool(rem) and bool(g) and fc.only_through(rem, g),
            "entity removed although it still contains entities")
        pn = [bb for bb, i, s in fc.aggregates("DdsError", "PreconditionNotMet")]
        add("R36a", "PreconditionNotMet is reported", bool(pn), "no PreconditionNotMet")
        for x in pn:
            # (an error that is built as a verdict first and returned through `?` afterwards does not continue to the removal)
            add("R36a", "failing precondition changes nothing", not fc.reach_avoiding(rem, lambda e2, o2, c2=None: False, start=x), "removal reachable after the error was built")
    # participant
    d = fx.fn("DcpsParticipantFactory", "delete_participant")
    df = FnCtx(d)
    addd = adder(rep, d)
    rem = [bb for bb, t in df.calls("Vec::remove", "Vec::swap_remove", "Vec::retain") if t.args and field_of(df.arg(t, 0)) == "domain_participant_list"]
    g = df.guards(lambda ce: "true" if E.is_call(E.strip_casts(ce.expr), "is_participant_empty", "is_empty") else None)
    n += len(rem)
    addd("R36a", "participant removed only when it is empty", bool(rem) and bool(g) and df.only_through(rem, g), "participant removed although it contains entities")
    # topic
    t = fx.fn("DcpsDomainParticipant", "delete_user_defined_topic")
    tf = FnCtx(t)
    addt = adder(rep, t)
    rem = [bb for bb, tt in tf.calls("Vec::retain", "Vec::remove") if tt.args and field_of(tf.arg(tt, 0)) == "locally_created_topic_list"]
    n += len(rem)
    uses = []
    for sb, ce in tf.ces.items():
        c = cmp_norm(E.strip_casts(ce.expr))
        if c and c[0] in ("Eq", "Ne") and E.mentions_field(c[1], "topic_name") and E.mentions_field(c[2], "topic_name") and ce.true_target is not None:
            if c[0] == "Ne":
                # `if a != b { continue; } return Err(..)`: the in-use edge is the false edge
                ce = type("Flipped", (), {"true_target": ce.false_target, "false_target": ce.true_target, "expr": ce.expr})()
            who = "writer" if E.mentions_field(ce.expr, "data_writer_list") else ("reader" if E.mentions_field(ce.expr, "data_reader_list") else
                  ("cft" if (E.mentions_field(ce.expr, "content_filtered_topic_list") or E.mentions_field(ce.expr, "related_topic_name")) else "?"))
            uses.append((who, sb, ce))
    # the same test written as `list.iter().any(|x| x.topic_name == name)`: the decision is the switch on the result of any()
    from rules.common import closure_bodies_in
    from vplib.facts import Place
    any_uses = []
    for sb, ce in tf.ces.items():
        if ce.true_target is None:
            continue
        e = E.strip_casts(ce.expr)
        tt = ce.true_target
        while e[0] == "un" and e[1] == "Not":
            e = E.strip_casts(e[2])
            tt = ce.false_target if tt == ce.true_target else ce.true_target
        if not E.is_call(e, "Iterator::any"):
            continue
        cmp_topic = False
        for cb in closure_bodies_in(fx, tf, e):
            kf = FnCtx(cb)
            cc = cmp_norm(E.strip_casts(kf.eb.place(Place([0, []]))))
            if cc and cc[0] == "Eq" and E.mentions_field(cc[1], "topic_name") and E.mentions_field(cc[2], "topic_name"):
                cmp_topic = True
        if cmp_topic:
            cbs = closure_bodies_in(fx, tf, e)
            who = "writer" if (E.mentions_field(e, "data_writer_list") or any(cb.touches_field(None, "data_writer_list") for cb in cbs)) else (
                "reader" if (E.mentions_field(e, "data_reader_list") or any(cb.touches_field(None, "data_reader_list") for cb in cbs)) else "?")
            any_uses.append((who, sb, tt))
    for who in ("writer", "reader"):
        u = [(sb, ce.true_target) for w, sb, ce in uses if w == who] + [(sb, tt) for w, sb, tt in any_uses if w == who]
        # (reachability that follows a bool the verdict may be stored in before it is tested)
        addt("R36a", "topic in use by a data %s cannot be deleted" % who, bool(u) and all(not tf.reach_avoiding(rem, lambda e2, o2, c2=None: False, start=tt) for sb, tt in u),
             "no topic_name comparison against %ss leading away from the removal" % who)
    # the in-use test must look at the *related* topic of each content-filtered topic (its own topic_name is a different name)
    cft = tf.body.touches_field(None, "content_filtered_topic_list") and \
        (tf.body.touches_field(None, "related_topic_name") or any(x.touches_field(None, "related_topic_name") for x in fx.descendants(t)))
    addt("R36d", "topic referenced by a content-filtered topic cannot be deleted", cft,
         "delete_user_defined_topic never compares related_topic_name of the content_filtered_topic_list entries: a topic that is the related topic of a ContentFilteredTopic "
         "(and thereby used by its readers) can be deleted")
    return n


def contained_entities(fx, rep):
    ie = fx.fn("DomainParticipantEntity", "is_empty")
    fields = sorted({f for a, f in ie.sum_fields if f.endswith("_list")} | {f for x in fx.descendants(ie) for a, f in x.sum_fields if f.endswith("_list")})
    d = fx.fn("DcpsDomainParticipant", "delete_participant_contained_entities")
    df = FnCtx(d)
    add = adder(rep, d)
    n = 0
    for f in fields:
        n += 1
        shr = [bb for bb, t in df.calls("Vec::drain", "Vec::clear", "Vec::retain", "Vec::truncate") if t.args and field_of(df.arg(t, 0)) == f]
        add("R36c", "delete_contained_entities empties %s" % f, bool(shr),
            "is_empty() requires %s to be empty but delete_participant_contained_entities never shrinks it: the participant cannot be deleted afterwards" % f)
    return n


def not_found(fx, rep):
    n = 0
    dev = []
    for b in fx.bodies.values():
        if b.kind != "AssocFn" or short_ty(b.impl_self or "") != "DcpsDomainParticipant" or not b.file.endswith("_methods.rs"):
            continue
        if not b.inputs or not any("InstanceHandle" in i for i in b.inputs[1:]):
            continue
        # API-level operations only: they answer the caller (Result or a reply sender); internal helpers return ()
        if not ((b.output or "").startswith("std::result::Result") or any("OneshotSender" in i for i in b.inputs)):
            continue
        fc = FnCtx(b)
        m = fc.mir
        ad = [bb for bb, i, s in fc.aggregates("DdsError", "AlreadyDeleted")]
        rets = set(m.return_blocks())
        for sb, ce in fc.ces.items():
            if ce.expr[0] != "discr" or not E.is_call(ce.expr[1], "Iterator::find") or ce.expr[1][4]:
                continue
            # the collection that is searched (receiver of iter()/iter_mut()), not any collection on the access path
            it = ce.expr[1][2][0] if ce.expr[1][2] else None
            recv = it[2][0] if it is not None and it[0] == "call" and it[2] else None
            lst = [l for l in ("user_defined_publisher_list", "user_defined_subscriber_list", "data_writer_list", "data_reader_list") if recv is not None and field_of(recv) == l]
            if not lst:
                continue
            none_t = ce.target_for(0)
            some_t = ce.target_for(1)
            if none_t is None or none_t == some_t:
                continue
            n += 1
            r = m.reachable(none_t, removed_blocks=ad)
            ok = bool(ad) and not (r & rets)
            rep.add("R36b", b.sname, "entity not found in %s -> AlreadyDeleted" % lst[-1], ok,
                    "the not-found edge returns without DdsError::AlreadyDeleted (operation on a deleted entity reports success or another error)",
                    b.loc(m.blocks[sb].term.line))
    return n


def run(ctx, rep):
    fx = ctx.facts
    n = removal_rules(fx, rep)
    rep.floor("R36a", n, 4, "entity removals")
    c = contained_entities(fx, rep)
    rep.floor("R36c", c, 4, "collections tested by is_empty")
    k = not_found(fx, rep)
    rep.floor("R36b", k, 30, "handle lookups in *_methods functions")
    # R35a/R35b (shared with C35): AlreadyDeleted for a stale object relies on handles never being handed out twice: the entity
    # counters they derive from never wrap
    from rules import c35
    before = len(rep.obls)
    floors_before = len(rep.floors)
    c35.run(ctx, rep)
