"""C19 — Resource limits are enforced and rejections are reported (structural).

R19a  every insertion into DataReaderEntity::sample_list is reached only through the negative edges of
      all three limit tests (max_samples, max_instances — or "instance already known" —, max_samples_per_instance)
R19b  each Rejected(_, reason) is behind the positive edge of the limit test its reason names
R19c  the Rejected arm of the receive path calls increment_sample_rejected_status with the rejected
      (handle, reason) and raises the SampleRejected communication state; only add_reader_change inserts
R19d  DataWriterEntity::write_w_timestamp performs no mutation on a path that afterwards returns
      Err(OutOfResources) (a refused write stores nothing)
"""
from vplib import expr as E
from rules import reader_entity as RE
from rules.common import FnCtx, adder

TECHNIQUE = "guard-free path search per limit (boolean-variable aware), reason/test pairing, mutation-before-error ordering on MIR"
ASSUMPTIONS = ["resource limits cannot change after enable (checked under C37 immutability)"]


def receive_arm(fx, rep):
    b = fx.fn("DcpsDomainParticipant", "process_user_defined_received_cache_changes")
    fc = FnCtx(b)
    add = adder(rep, b)
    inc = fc.calls("UserDefinedDataReader::increment_sample_rejected_status")
    add("R19c", "rejections are counted", bool(inc), "no increment_sample_rejected_status call")
    n = 0
    for bb, t in inc:
        n += 1
        a1, a2 = fc.arg(t, 1), fc.arg(t, 2)
        ok = "as Rejected" in str(a1) and "as Rejected" in str(a2) and E.mentions_call(a1, "add_reader_change")
        add("R19c", "counted with the handle and reason carried by AddChangeResult::Rejected", ok,
            "arguments are %s, %s" % (fc.show(a1)[:60], fc.show(a2)[:60]), t.line)
        # the SampleRejected state is raised on every path from here to the loop continuation
        raises = [b2 for b2, t2 in fc.calls("DcpsStatusCondition::add_communication_state")
                  if (lambda x: x[0] == "adt" and x[2] == "SampleRejected")(fc.arg(t2, 1))]
        m = fc.mir
        heads = [h for h, t3 in fc.calls("Iterator::next")]
        r = m.reachable(bb, removed_blocks=raises)
        esc = bool(r & set(heads)) or bool(r & set(m.return_blocks()))
        add("R19c", "SampleRejected communication state raised after counting", bool(raises) and not esc,
            "a path from the rejection to the next change skips add_communication_state(SampleRejected)", t.line)
    # who may insert into sample_list
    k = 0
    for ob in fx.bodies.values():
        if not ob.is_fn_like() or not ob.touches_field("DataReaderEntity", "sample_list") or not ob.calls_any("Vec::push", "Vec::insert", "Vec::extend", "Vec::append"):
            continue
        ofc = FnCtx(ob)
        for bb, t in RE.insertions(ofc):
            k += 1
            root = ob
            while root.parent in fx.bodies:
                root = fx.bodies[root.parent]
            rep.add("R19c", ob.sname, "samples enter sample_list only through add_reader_change", root.item_name == "add_reader_change",
                    "insertion into sample_list bypasses the resource-limit tests", ob.loc(t.line))
    return n, k


def writer(fx, rep):
    b = fx.fn("DataWriterEntity", "write_w_timestamp")
    fc = FnCtx(b)
    m = fc.mir
    add = adder(rep, b)
    muts = []
    for bb, t in fc.calls("Vec::push", "VecDeque::push_back", "add_change"):
        muts.append((bb, t.line, t.callee.best_name()))
    for f in ("last_change_sequence_number", "last_write_time"):
        for bb, i, s in fc.field_writes(None, f):
            muts.append((bb, s.line, "write to " + f))
    n = 0
    for bb, i, s in fc.aggregates("DdsError", "OutOfResources"):
        n += 1
        before = [(mb, ln, what) for mb, ln, what in muts if bb in m.reachable(mb) and mb in m.reachable(0)]
        add("R19d", "Err(OutOfResources) is returned before anything is stored", not before,
            "a refused write has already performed: %s — e.g. a new instance stays registered (and counts against max_instances) "
            "although the write failed" % ", ".join("%s (line %s)" % (w.split("::")[-1], ln) for _, ln, w in before), s.line)
    return n


def run(ctx, rep):
    fx = ctx.facts
    n, nr = RE.c19_reader(fx, rep)
    rep.floor("R19a", n, 6, "insertion x limit obligations")
    rep.floor("R19b", nr, 3, "Rejected constructions")
    c, k = receive_arm(fx, rep)
    rep.floor("R19c", c, 1, "increment_sample_rejected_status calls")
    rep.floor("R19c-insert", k, 2, "insertions into sample_list")
    w = writer(fx, rep)
    rep.floor("R19d", w, 3, "Err(OutOfResources) constructions in DataWriterEntity::write_w_timestamp")
    # R27d (shared with C27): the writer's KEEP_LAST history never holds more than depth samples per instance because both write
    # paths evict when len == depth; DataWriterEntity::write_w_timestamp skips the max_samples_per_instance test for KEEP_LAST on
    # that assumption
    from rules.c27 import depth_tests
    b1 = fx.fn("DcpsDomainParticipant", "write_w_timestamp")
    b2 = fx.fn("DcpsDomainParticipant", "process_pending_write_samples")
    nd = depth_tests(fx, rep, [b1, b2])
    rep.floor("R27d", nd, 3, "samples.len() vs depth comparisons on the write path")
