"""C03 — wait_for_acknowledgments is sound and can complete after a reader goes away (structural).

R03a  every `send(Ok(()))` on a wait-for-acknowledgments notification is reached only through the
      true edge of RtpsStatefulWriter::is_change_acknowledged(writer.last_change_sequence_number)
R03b  is_change_acknowledged == not any(reliable proxy with unacked_changes(Some(sn)));
      unacked_changes compares against highest_acked_seq_num, which only acked_changes_set writes,
      which only the ACKNACK handler calls
R03c  every removal from UserDefinedDataWriter::matched_subscription_list is accompanied (in the same
      function or in every caller chain up to depth 3) by delete_matched_reader on the RTPS writer and
      by a re-evaluation of the waiters (is_change_acknowledged + send) — otherwise a waiter blocked only
      on the departed reader never completes
R03g  every GAP the writer side builds announces a non-empty range that contains its start (gap_list base = last irrelevant
      number + 1, sibling sites agree): an empty GAP is ignored by the reader, which then requests the same number for ever
      and the acknowledgment never arrives after the network heals                                   (shared with C01 R01h)
R05g  a fragment is buffered at most once (shared with C05): completeness is decided by counting, so a duplicate plus a loss
      would acknowledge a sample the reader never held
The time bound after healing is not decided.
"""
from vplib import expr as E
from vplib.facts import path_endswith
from rules import rtps_core as R
from rules.common import FnCtx, cmp_norm, adder, closure_env, subst_captures

TECHNIQUE = "MIR guard-free path search for success sends; who-may-write/who-may-call; call-graph must-accompany for list removals"
ASSUMPTIONS = ["the worker is the only mutator of writer state (single actor)"]

REMOVERS = ("Vec::remove", "Vec::retain", "Vec::retain_mut", "Vec::clear", "Vec::drain", "Vec::swap_remove", "Vec::pop", "Vec::truncate")


def is_ok_unit(e):
    return e[0] == "adt" and path_endswith(e[1], "Result") and e[2] == "Ok"


def success_sends(facts, rep):
    n = 0
    for b in facts.bodies.values():
        if not b.is_fn_like() or not b.touches_field("UserDefinedDataWriter", "wait_for_acknowledgments_notification"):
            continue
        fc = FnCtx(b)
        sends = []
        for bb, t in fc.calls("OneshotSender::send"):
            if len(t.args) == 2 and is_ok_unit(fc.arg(t, 1)):
                recv = fc.arg(t, 0)
                # sender taken from the notification list, or the function's own notify_sender which is otherwise stored in the list
                from_list = E.mentions_field(recv, "wait_for_acknowledgments_notification")
                stored = False
                if recv[0] == "param":
                    for b2, t2 in fc.calls("Vec::push"):
                        if E.mentions_field(fc.arg(t2, 0), "wait_for_acknowledgments_notification") and E.same(fc.arg(t2, 1), recv):
                            stored = True
                if from_list or stored:
                    sends.append((bb, t))

        def guard(e, outcome, ce):
            e0 = E.strip_casts(e)
            if E.is_call(e0, "is_change_acknowledged") and outcome == "true":
                args = e0[2]
                return len(args) == 2 and E.mentions_field(args[1], "last_change_sequence_number")
            return False
        found = fc.reach_avoiding([bb for bb, _ in sends], guard)
        for bb, t in sends:
            n += 1
            rep.add("R03a", b.sname, "send(Ok) to an acknowledgment waiter only after is_change_acknowledged(last_change_sequence_number)",
                    bb not in found, "success reachable without the acknowledged test; witness blocks %s" % (found.get(bb),), b.loc(t.line))
    return n


def oracle_definition(facts, rep):
    b = facts.fn("RtpsStatefulWriter", "is_change_acknowledged")
    add = adder(rep, b)
    fc = FnCtx(b)
    # result = Not(any(filter(iter(matched_readers), reliable), unacked))
    ret = fc.eb.place(__import__("vplib.facts", fromlist=["Place"]).Place([0, []]))
    neg = 0
    e = ret
    while e[0] == "un" and e[1] == "Not":
        e = e[2]
        neg += 1
    kids = facts.closure_of(b)
    # the restriction to reliable proxies is either a filter before the any(), or a conjunct inside the any() closure
    # (`any(|p| p.reliability() == Reliable && p.unacked_changes(..))`)
    merged = False
    for k in kids:
        if k.calls_any("RtpsReaderProxy::unacked_changes") and k.calls_any("RtpsReaderProxy::reliability"):
            kf = FnCtx(k)
            ub = [bb for bb, t in kf.calls("RtpsReaderProxy::unacked_changes")]

            def rel_true(ce):
                c = cmp_norm(E.strip_casts(ce.expr))
                if c and c[0] in ("Eq", "Ne") and any(x[0] == "adt" and x[2] == "Reliable" for x in (E.strip_casts(c[1]), E.strip_casts(c[2]))) \
                        and any(E.mentions_call(x, "RtpsReaderProxy::reliability") for x in (c[1], c[2])):
                    return "true" if c[0] == "Eq" else "false"
                return None
            g = kf.guards(rel_true)
            defs0 = [kf._def_expr(d) for d in kf.mir.whole_defs(0)]
            only_false_or_unacked = all((E.strip_casts(de) == ("const", 0)) or E.is_call(E.strip_casts(de), "RtpsReaderProxy::unacked_changes") for de in defs0)
            merged = bool(g) and kf.only_through(ub, g) and only_false_or_unacked
    ok_shape = neg == 1 and E.is_call(e, "Iterator::any") and E.mentions_field(e, "matched_readers") and (E.mentions_call(e, "Iterator::filter") or merged)
    if not ok_shape and neg == 0 and E.is_call(e, "Iterator::all") and E.mentions_field(e, "matched_readers") and E.mentions_call(e, "Iterator::filter"):
        # De Morgan form: filter(reliable).all(|p| !p.unacked_changes(..))
        for k in kids:
            if k.calls_any("RtpsReaderProxy::unacked_changes"):
                kf = FnCtx(k)
                r0 = kf.eb.place(__import__("vplib.facts", fromlist=["Place"]).Place([0, []]))
                if r0[0] == "un" and r0[1] == "Not" and E.is_call(E.strip_casts(r0[2]), "RtpsReaderProxy::unacked_changes"):
                    ok_shape = True
    add("R03b", "is_change_acknowledged = !matched_readers.filter(reliable).any(unacked)", ok_shape, "shape is %s" % fc.show(ret)[:200])
    unacked = [k for k in kids if k.calls_any("RtpsReaderProxy::unacked_changes")]
    add("R03b", "any-closure asks RtpsReaderProxy::unacked_changes", len(unacked) == 1, "closures calling unacked_changes: %d" % len(unacked))
    for k in unacked:
        kf = FnCtx(k)
        for bb, t in kf.calls("RtpsReaderProxy::unacked_changes"):
            # in the parent's terms: Some(<the sequence number parameter>) — the closure may capture the parameter or a local holding Some(parameter)
            a = E.strip_casts(subst_captures(kf.arg(t, 1), closure_env(fc, k)))
            sn_params = [i + 1 for i, ty in enumerate(b.inputs or []) if ty in ("i64", "SequenceNumber") or ty.endswith("SequenceNumber")]
            ok = a[0] == "adt" and a[2] == "Some" and a[3] and E.strip_casts(a[3][0])[0] == "param" and E.strip_casts(a[3][0])[1] in sn_params and not E.strip_casts(a[3][0])[2]
            add("R03b", "unacked_changes is asked about the queried sequence number", ok, "argument is %s" % kf.show(a), t.line)
    rel = [k for k in kids if k.calls_any("RtpsReaderProxy::reliability")]
    ok = False
    for k in rel:
        kf = FnCtx(k)
        r = kf.eb.place(__import__("vplib.facts", fromlist=["Place"]).Place([0, []]))
        c = cmp_norm(r)
        if c and c[0] == "Eq" and any(x[0] == "adt" and x[2] == "Reliable" for x in (c[1], c[2])):
            ok = True
    add("R03b", "filter keeps exactly the Reliable proxies", ok or merged, "no closure of the form reliability() == Reliable")
    # unacked_changes
    u = facts.fn("RtpsReaderProxy", "unacked_changes")
    uf = FnCtx(u)
    addu = adder(rep, u)
    good = False
    for bb, i, s in uf.mir.stmts():
        if s.kind == "assign" and s.lhs.is_local() and s.lhs.local == 0:
            e = uf.rv_expr(s)
            c = cmp_norm(e)
            if c and c[0] == "Gt" and E.mentions_field(c[2], "highest_acked_seq_num") and not E.mentions_field(c[1], "highest_acked_seq_num"):
                good = True
            elif c and c[0] == "Lt" and E.mentions_field(c[1], "highest_acked_seq_num"):
                good = True
            elif e == ("const", 0):
                pass
            else:
                addu("R03b", "unacked_changes returns only `available > highest_acked` or false", False, "returns %s" % uf.show(e), s.line)
    if not good:
        # `highest_available.is_some_and(|sn| sn > self.highest_acked_seq_num)`: the function returns the combinator's result and the
        # comparison is the closure's value
        ret_calls = [t for bb, t in uf.mir.calls() if t.dest is not None and t.dest.is_local() and t.dest.local == 0 and not t.callee.indirect
                     and t.callee.method() in ("is_some_and", "map_or", "is_ok_and")]
        for k in facts.descendants(u):
            if k.mir is None or not ret_calls:
                continue
            kf = FnCtx(k)
            for d in kf.mir.whole_defs(0):
                c = cmp_norm(E.strip_casts(kf._def_expr(d)))
                if c and ((c[0] == "Gt" and E.mentions_field(c[2], "highest_acked_seq_num") and not E.mentions_field(c[1], "highest_acked_seq_num"))
                          or (c[0] == "Lt" and E.mentions_field(c[1], "highest_acked_seq_num") and not E.mentions_field(c[2], "highest_acked_seq_num"))):
                    good = True
    addu("R03b", "unacked_changes compares against highest_acked_seq_num", good, "comparison not found")
    # who may write highest_acked_seq_num / who may call acked_changes_set
    n = 0
    for ob in facts.bodies.values():
        if ob.is_fn_like() and ob.writes_field("RtpsReaderProxy", "highest_acked_seq_num"):
            n += 1
            rep.add("R03b", ob.sname, "highest_acked_seq_num written only by acked_changes_set", ob.item_name == "acked_changes_set",
                    "unexpected writer of the acknowledged mark", ob.loc())
        if ob.is_fn_like() and ob.calls_any("RtpsReaderProxy::acked_changes_set"):
            n += 1
            rep.add("R03b", ob.sname, "acked_changes_set called only by the ACKNACK handler", ob.item_name == "on_acknack_submessage_received",
                    "unexpected caller: acknowledgements must come from received ACKNACKs", ob.loc())
    return n


def removal_sites(facts, adt, field):
    out = []
    for b in facts.bodies.values():
        if not b.is_fn_like() or not b.touches_field(adt, field):
            continue
        if not b.calls_any(*REMOVERS):
            continue
        fc = FnCtx(b)
        for bb, t in fc.calls(*REMOVERS):
            a = fc.arg(t, 0)
            if E.mentions_field(a, field) and (a[0] in ("param", "local", "call")) and (a[2] if a[0] != "call" else a[4])[-1:] == (field,):
                out.append((b, bb, t))
    return out


def accompanied(facts, body, pred_calls, depth=3, seen=None):
    """body (or, failing that, every caller chain up to `depth`) calls one of pred_calls"""
    root = body
    while root.parent in facts.bodies:
        root = facts.bodies[root.parent]
    family = [root] + facts.descendants(root)
    if any(x.calls_any(*pred_calls) for x in family):
        return True, [root.sname]
    if depth == 0:
        return False, [root.sname]
    callers = [c for c in facts.callers_of(root.id)]
    # callers that are closures belong to their root fn
    if not callers:
        return False, [root.sname]
    bad = []
    for c in callers:
        ok, chain = accompanied(facts, c, pred_calls, depth - 1)
        if not ok:
            bad = [root.sname] + chain
            return False, bad
    return True, [root.sname]


def run(ctx, rep):
    fx = ctx.facts
    n = success_sends(fx, rep)
    rep.floor("R03a", n, 2, "success sends to wait_for_acknowledgments waiters")
    n2 = oracle_definition(fx, rep)
    rep.floor("R03b", n2, 2, "writers of highest_acked_seq_num / callers of acked_changes_set")
    hb = fx.fn("RtpsStatefulWriter", "on_acknack_submessage_received")
    na = R.acknack_handler(hb, adder(rep, hb))
    rep.floor("R01d", na, 4, "ACKNACK handler state updates (acknowledged = base - 1)")
    ng = R.periodic_heartbeat_solicits_ack(fx, rep, "R03e")
    rep.floor("R03e", ng, 3, "periodic heartbeat + reader must_send_acknacks sites")
    ngap = R.gap_ranges_nonempty(fx, rep, "R03g")
    rep.floor("R03g", ngap, 6, "GAP constructions on the writer side")
    from rules.c05 import no_duplicate_fragments
    ndup = no_duplicate_fragments(fx, rep)
    rep.floor("R05g", ndup, 1, "pushes into RtpsWriterProxy::frag_buffer")
    sites = removal_sites(fx, "UserDefinedDataWriter", "matched_subscription_list")
    rep.floor("R03c", len(sites), 1, "removals from matched_subscription_list")
    for b, bb, t in sites:
        ok, chain = accompanied(fx, b, ("RtpsStatefulWriter::delete_matched_reader",))
        rep.add("R03c", b.sname, "matched reader removal deletes the RTPS reader proxy", ok,
                "matched_subscription_list entry removed but no delete_matched_reader on the call chain %s: the writer keeps "
                "waiting for acknowledgements from a reader that is gone (wait_for_acknowledgments never completes)" % " <- ".join(chain), b.loc(t.line))
        ok2, chain2 = accompanied(fx, b, ("RtpsStatefulWriter::is_change_acknowledged",))
        rep.add("R03c", b.sname, "waiters are re-evaluated after a matched reader is removed", ok2,
                "no is_change_acknowledged re-evaluation on the call chain %s: a waiter blocked only on the departed reader "
                "is not released" % " <- ".join(chain2), b.loc(t.line))
