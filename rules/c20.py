"""C20 — read/take selection (parameter influence and read-vs-take effects only; ranks are not decided).

R20a  in DataReaderEntity::create_sample_collection the push into the result collection is reached
      only through: sample_states.contains(sample.sample_state), view_states.contains(instance.view_state),
      instance_states.contains(instance.instance_state), the `len != max_samples` edge, and — when a
      specific instance is requested — the `instance_handle == requested` edge
R20b  on the selected path: take => the closure returns false (sample removed) and sample_state is not
      written; read => sample_state := Read and the closure returns true; unselected samples are kept untouched
R20c  Err(NoData) only through samples.is_empty()
R20d  read / take reply NotEnabled before anything else when the reader is not enabled, and differ
      exactly in the `take` flag
"""
from vplib import expr as E
from vplib.facts import Place, path_endswith
from rules.common import FnCtx, cmp_norm, adder

TECHNIQUE = "guard-free path search inside the retain_mut closure (one run per selection input) + effect ordering"
ASSUMPTIONS = ["SampleInfo ranks and collection grouping are value-level and not decided"]


def cap(e, name):
    """expression mentions the closure capture `name`"""
    return E.mentions_field(e, name)


def run(ctx, rep):
    fx = ctx.facts
    b = fx.fn("DataReaderEntity", "create_sample_collection")
    kids = [k for k in fx.closure_of(b) if k.calls_any("Vec::push") and k.calls_any("[T]::contains")]
    add0 = adder(rep, b)
    add0("R20a", "selection closure found (retain_mut with contains-tests and push)", len(kids) == 1, "found %d candidate closures" % len(kids))
    rep.floor("R20a", len(kids), 1, "selection closures in create_sample_collection")
    if len(kids) != 1:
        return
    k = kids[0]
    fc = FnCtx(k)
    add = adder(rep, k)
    pushes = [bb for bb, t in fc.calls("Vec::push") if cap(fc.arg(t, 0), "samples")]
    add("R20a", "matching samples are pushed into the result", bool(pushes), "no push onto `samples`")

    def contains_guard(mask, field):
        def g(e, outcome, ce):
            e0 = E.strip_casts(e)
            return E.is_call(e0, "[T]::contains", "contains") and len(e0[2]) == 2 and cap(e0[2][0], mask) and E.mentions_field(e0[2][1], field) and outcome == "true"
        return g
    for mask, field in (("sample_states", "sample_state"), ("view_states", "view_state"), ("instance_states", "instance_state")):
        found = fc.reach_avoiding(pushes, contains_guard(mask, field))
        add("R20a", "push only for samples whose %s is in %s" % (field, mask), not found,
            "a sample is selected without %s.contains(%s); witness %s" % (mask, field, list(found.values())[:1]))

    def max_guard(e, outcome, ce):
        c = cmp_norm(E.strip_casts(e))
        if c and (cap(c[1], "max_samples") or cap(c[2], "max_samples")) and (E.mentions_call(c[1], "Vec::len") or E.mentions_call(c[2], "Vec::len")):
            op = c[0]
            return (op in ("Eq", "Ge") and outcome == "false") or (op in ("Ne", "Lt") and outcome == "true")
        return False
    found = fc.reach_avoiding(pushes, max_guard)
    add("R20a", "push only while fewer than max_samples are collected", not found, "max_samples does not bound the collection")

    def inst_guard(e, outcome, ce):
        if e[0] == "discr" and cap(e[1], "specific_instance_handle") and outcome in (0, "otherwise") :
            # None arm: no specific instance requested
            return outcome == 0 or (outcome == "otherwise" and all(v != 0 for v, _ in ce.arms))
        c = cmp_norm(E.strip_casts(e))
        if c and (cap(c[1], "specific_instance_handle") or cap(c[2], "specific_instance_handle")) and (E.mentions_field(c[1], "instance_handle") or E.mentions_field(c[2], "instance_handle")):
            return (c[0] == "Ne" and outcome == "false") or (c[0] == "Eq" and outcome == "true")
        return False
    found = fc.reach_avoiding(pushes, inst_guard)
    add("R20a", "push only for the requested instance (when one is given)", not found, "specific_instance_handle does not restrict the selection")

    # R20b effects
    m = fc.mir
    take_sw = [(bb, ce) for bb, ce in fc.ces.items() if ce.expr[0] in ("param", "local") and cap(ce.expr, "take") and ce.true_target is not None]
    add("R20b", "selected path branches on `take`", len(take_sw) == 1, "found %d switches on take" % len(take_sw))
    writes = [(bb, s) for bb, i, s in fc.field_writes(None, "sample_state")]
    ret_false = [bb for bb, i, s in m.stmts() if s.kind == "assign" and s.lhs.is_local() and s.lhs.local == 0 and fc.rv_expr(s) == ("const", 0)]
    ret_true = [bb for bb, i, s in m.stmts() if s.kind == "assign" and s.lhs.is_local() and s.lhs.local == 0 and fc.rv_expr(s) == ("const", 1)]
    def value_if_take(e, tv, d=0):
        """value of a bool expression when `take` has the value tv (None when it depends on anything else)"""
        e = E.strip_casts(e)
        if d > 6:
            return None
        if e[0] == "const":
            return bool(e[1])
        if e[0] == "un" and e[1] == "Not":
            v = value_if_take(e[2], tv, d + 1)
            return None if v is None else (not v)
        if e[0] in ("param", "local") and cap(e, "take"):
            return tv
        if e[0] == "local" and not e[2]:
            ds = m.whole_defs(e[1])
            vals = {value_if_take(fc._def_expr(x), tv, d + 1) for x in ds}
            return vals.pop() if len(vals) == 1 else None
        return None

    def returns_on(blocks, tv):
        """set of values the closure can return from the given region when take == tv"""
        vals = set()
        for x, i, s in m.stmts():
            if x in blocks and s.kind == "assign" and s.lhs.is_local() and s.lhs.local == 0:
                vals.add(value_if_take(fc.rv_expr(s), tv))
        return vals
    for bb, ce in take_sw:
        rt, rf = m.reachable(ce.true_target, removed_edges=[(bb, ce.false_target)]), m.reachable(ce.false_target, removed_edges=[(bb, ce.true_target)])
        add("R20b", "take: sample removed (closure returns false)", returns_on(rt, True) == {False},
            "take path does not return false only")
        add("R20b", "take: sample_state not modified", not any(wb in rt for wb, s in writes), "take path writes sample_state")
        okw = any(wb in rf and fc.rv_expr(s)[0] == "adt" and fc.rv_expr(s)[2] == "Read" for wb, s in writes)
        add("R20b", "read: sample marked Read and kept", okw and returns_on(rf, False) == {True},
            "read path does not set sample_state = Read and return true")
        # the branch on take happens after the push
        add("R20b", "read/take effect applies only to selected samples", all(bb not in m.reachable(0, removed_blocks=pushes) for bb, _ in take_sw),
            "the take/read effect is reachable for samples that were not selected")
    for wb, s in writes:
        add("R20b", "sample_state written only on the read path of a selected sample", wb not in m.reachable(0, removed_blocks=pushes), "sample_state written for unselected samples", s.line)
    # R20c
    bf = FnCtx(b)
    nd = [bb for bb, i, s in bf.aggregates("DdsError", "NoData")]
    oks = [bf.rv_expr(s)[3][0] for bb, i, s in bf.aggregates("Result", "Ok") if bf.rv_expr(s)[3]]

    def empty_of_result(ce):
        e0 = E.strip_casts(ce.expr)
        if E.is_call(e0, "Vec::is_empty") and e0[2]:
            # the vector tested is the one returned in Ok(..) (same defining call site)
            if any(o == e0[2][0] for o in oks):
                return "true"
        return None
    g = bf.guards(empty_of_result)
    add0("R20c", "Err(NoData) only when the collection is empty", bool(nd) and bool(g) and bf.only_through(nd, g), "NoData reachable without samples.is_empty()")
    # R20d
    for name, flag in (("read", 0), ("take", 1)):
        f = fx.fn("DataReaderEntity", name)
        ff = FnCtx(f)
        addf = adder(rep, f)
        calls = ff.calls("DataReaderEntity::create_sample_collection")
        addf("R20d", "%s delegates to create_sample_collection(take=%s)" % (name, bool(flag)), len(calls) == 1 and ff.arg(calls[0][1], 6) == ("const", flag),
             "take flag is %s" % (ff.show(ff.arg(calls[0][1], 6)) if calls else "?"))
        ne = [bb for bb, i, s in ff.aggregates("DdsError", "NotEnabled")]
        ge = ff.guards(lambda ce: "false" if (ce.expr[0] in ("param", "local") and E.mentions_field(ce.expr, "enabled")) else None)
        addf("R20d", "%s replies NotEnabled exactly when !enabled, before collecting" % name,
             bool(ne) and bool(ge) and ff.only_through(ne, ge) and all(cb not in ff.mir.reachable(0, removed_edges=[(sb, t) for sb, t in ff.guards(lambda ce: "true" if (ce.expr[0] in ("param", "local") and E.mentions_field(ce.expr, "enabled")) else None)]) for cb, _ in calls),
             "NotEnabled / collection not ordered by the enabled test")
    # R20e: Err(BadParameter) exactly for a handle that is not among the reader's known instances
    bp = [bb for bb, i, s in bf.aggregates("DdsError", "BadParameter")]
    okb = False
    def not_member(ce):
        """the edge on which the handle is NOT among self.instances: any(..) false, position(..)/find(..).is_some() false, .is_none() true"""
        e0 = E.strip_casts(ce.expr)
        if ce.true_target is None:
            return None
        coll, positive = None, True
        if E.is_call(e0, "Iterator::any") and e0[2]:
            coll = e0[2][0]
        elif e0[0] == "call" and e0[1].split("::")[-1] in ("is_some", "is_none") and e0[2]:
            inner = E.strip_casts(e0[2][0])
            if E.is_call(inner, "Iterator::position", "Iterator::find", "Iterator::rposition") and inner[2]:
                coll = inner[2][0]
                positive = e0[1].endswith("is_some")
        if coll is None or not E.mentions_field(coll, "instances") or E.mentions_field(coll, "sample_list"):
            return None
        return "false" if positive else "true"
    gm = bf.guards(not_member)
    if gm and bf.only_through(bp, gm):
        okb = True
    for sb, ce in []:
        pass
    add0("R20e", "Err(BadParameter) only for a handle that is not in the reader's instance list", bool(bp) and okb,
         "BadParameter is not decided on self.instances (a known instance without stored samples must yield NoData, which the next-instance walk relies on)")
    # R20f: absolute_generation_rank = (instance's most recent generation) - (generation recorded with the sample)
    nrank = 0
    for k in kids:
        kf = FnCtx(k)
        for bb, i, s in kf.aggregates("SampleInfo"):
            flds = s.rv.agg.get("fields") or []
            if "absolute_generation_rank" not in flds:
                continue
            nrank += 1
            v = E.arith_norm(E.strip_casts(kf.rv_expr(s)[3][flds.index("absolute_generation_rank")]))
            ok = False
            if v[0] in ("bin", "ckd") and v[1] == "Sub":
                l, r = v[2], v[3]
                ok = E.mentions_field(l, "most_recent_disposed_generation_count") and E.mentions_field(l, "most_recent_no_writers_generation_count") and \
                    E.mentions_field(r, "disposed_generation_count") and E.mentions_field(r, "no_writers_generation_count") and \
                    not E.mentions_field(r, "most_recent_disposed_generation_count") and not E.mentions_field(r, "most_recent_no_writers_generation_count")
            adder(rep, k)("R20f", "absolute_generation_rank = (instance's most recent disposed + no_writers generation) - (the sample's disposed + no_writers generation)", ok,
                          "rank is %s" % kf.show(v)[:200], s.line)
    rep.floor("R20f", nrank, 1, "SampleInfo constructions")
    rep.floor("R20", len(rep.obls), 15, "C20 obligations")
