"""C24 — Exclusive ownership: only the strongest live writer affects an instance (structural).

R24a  no instance-state mutation (update_state) happens before the ownership decision: an update_state
      call from which the `ownership.kind == Exclusive` test is still reachable acts for samples that the
      ownership filter may drop                                   (same root cause as C22 R22b)
R24b  under EXCLUSIVE ownership a sample is dropped (NotAdded) only when its writer is weaker than (or
      tied with) a *matched* owner, or its writer is unknown: an owner that is no longer matched does
      not block other writers
R24c  a missed requested deadline releases the instance's ownership
R24d  dispose / unregister releases the instance's ownership
R24h  the dispose / unregister test that releases the ownership dominates every later NotAdded / Rejected exit (time-based
      filter, resource limits): a not-alive change of the owner that a later filter drops still releases the instance
R24e  the strength comparison keeps the incumbent on ties (`writer <= owner` is dropped): ties are
      broken consistently
"""
from vplib import expr as E
from vplib.facts import path_endswith
from rules.common import FnCtx, cmp_norm, adder, closure_bodies_in, variant_value

TECHNIQUE = "MIR ordering rule (mutation before decision), guard-free path search for the ownership drops, sibling release sites"
ASSUMPTIONS = ["ownership strength of a writer is the value announced in its PublicationBuiltinTopicData"]


def field_of(e):
    if e[0] in ("param", "local") and e[2]:
        return e[2][-1]
    if e[0] == "call" and e[4]:
        return e[4][-1]
    return None


def run(ctx, rep):
    fx = ctx.facts
    b = fx.fn("DataReaderEntity", "add_reader_change")
    fc = FnCtx(b)
    m = fc.mir
    add = adder(rep, b)
    own_sw = [(bb, ce) for bb, ce in fc.ces.items()
              if (lambda c: c and any(x[0] == "adt" and x[2] == "Exclusive" for x in (c[1], c[2])))(cmp_norm(E.strip_casts(ce.expr)))]
    add("R24", "ownership.kind == Exclusive test present", len(own_sw) == 1, "found %d" % len(own_sw))
    rep.floor("R24", len(own_sw), 1, "ownership-kind tests in add_reader_change")
    if len(own_sw) != 1:
        return
    osb, oce = own_sw[0]
    # R24a
    n = 0
    ups_all = [(bb, t) for bb, t, inner, kf in fc.calls_with_closures(fx, "InstanceState::update_state")]
    for ub, t in ups_all:
        before = osb in m.reachable(ub)
        if before:
            n += 1
        add("R24a", "instance state is not modified before the ownership decision", not before,
            "update_state runs before the EXCLUSIVE ownership filter: a dispose / unregister / sample from a weaker writer, which the "
            "filter then drops, has already changed the instance state", t.line)
    # region of the ownership filter: blocks reachable from the Exclusive edge but before the shared continuation
    excl_t = oce.true_target
    shared = oce.false_target
    # blocks that belong to the Exclusive branch only (not reachable when the test is false)
    region = m.reachable(excl_t) - (m.reachable(shared) if shared is not None else set())
    drops = [(bb, s) for bb, i, s in m.stmts() if s.kind == "assign" and s.rv.is_adt("AddChangeResult", "NotAdded") and bb in region]
    add("R24b", "ownership filter can drop samples", bool(drops), "no NotAdded in the ownership region")

    def strength_guard(e, outcome, ce):
        c = cmp_norm(E.strip_casts(e))
        if c and E.mentions_call(c[1], "ownership_strength") and E.mentions_call(c[2], "ownership_strength"):
            return outcome == "true"
        if e[0] == "discr":
            sc = e[1]
            # None edge of the lookup of the *sample's writer* in matched_publication_list (unknown writer)
            if E.is_call(sc, "Iterator::find") and E.mentions_field(sc, "matched_publication_list") and outcome == 0:
                cbs = closure_bodies_in(fx, fc, sc)
                for cb in cbs:
                    kf = FnCtx(cb)
                    txt = " ".join(str(kf.eb.call(t2, b2, 0)) for b2, t2 in kf.mir.calls())
                    if "instance_writer" in txt:
                        return True
        return False
    found = fc.reach_avoiding([bb for bb, _ in drops], strength_guard, start=excl_t)
    for bb, s in drops:
        add("R24b", "NotAdded under EXCLUSIVE ownership only for a weaker/unknown writer", bb not in found,
            "a sample is dropped without comparing strengths: when the recorded owner is no longer in matched_publication_list "
            "(deleted writer / lost participant) every other writer's samples for that instance are dropped for ever", s.line)
    # R24e
    ne = 0
    from rules.common import all_comparisons
    for sb, cline, c in all_comparisons(fc):
        if c and E.mentions_call(c[1], "ownership_strength") and E.mentions_call(c[2], "ownership_strength"):
            ne += 1
            op, x, y = c
            xs, ys = fc.show(x), fc.show(y)
            # the incumbent's strength is looked up through the recorded ownership (instance_ownership / owner_handle)
            own_l = E.mentions_field(x, "instance_ownership") or E.mentions_field(x, "owner_handle")
            own_r = E.mentions_field(y, "instance_ownership") or E.mentions_field(y, "owner_handle")
            if own_l != own_r:
                writer_left = own_r
            else:
                writer_left = "instance_writer" in str(closure_texts(fx, fc, x)) or "writer_guid" in xs
            good = op in ("Le",) if writer_left else op in ("Ge",)
            # fall back: accept the incumbent-keeps forms only
            add("R24e", "ties keep the current owner (writer.strength <= owner.strength is dropped)", op in ("Le", "Ge") and good,
                "comparison is `%s`: with a strict comparison two equally strong writers take the instance from each other on every sample" % op,
                cline)
    rep.floor("R24e", ne, 1, "ownership strength comparisons")
    # R24d: not-alive changes release ownership
    rel = [(bb, t) for bb, t in fc.calls("Vec::remove", "Vec::retain", "Vec::swap_remove") if t.args and field_of(fc.arg(t, 0)) == "instance_ownership"]
    add("R24d", "dispose / unregister releases the instance ownership", bool(rel), "no removal from instance_ownership in add_reader_change")
    # R24h: the release is decided before any later filter can drop the change: every NotAdded / Rejected exit that is not part
    # of the ownership filter itself is reached from the end of that filter only through a test of the change kind (the test
    # that leads to the removal; a stored `matches!` verdict is followed) (a dispose / unregister of the owner that the time-based filter or a resource limit then drops would otherwise
    # leave the departed writer recorded as owner: every weaker writer is ignored from then on)
    nh = 0
    if rel:
        # switches on the discriminant of a ChangeKind value (the type is read from the MIR `discriminant(..)` statement)
        kind_blocks = set()
        for kb, blk in enumerate(m.blocks):
            for st in blk.stmts:
                if st.rv is not None and st.rv.kind == "discr" and str(st.rv.ty or "").split("::")[-1] == "ChangeKind" \
                        and blk.term.kind == "switch":
                    kind_blocks.add(kb)

        def kind_test(e, outcome, ce=None):
            return ce is not None and getattr(ce, "bb", None) in kind_blocks and E.strip_casts(e)[0] == "discr"
        start = shared if shared is not None else excl_t
        after = m.reachable(start)
        exits = [(bb, s) for bb, i, s in m.stmts() if s.kind == "assign" and s.rv is not None
                 and (s.rv.is_adt("AddChangeResult", "NotAdded") or s.rv.is_adt("AddChangeResult", "Rejected"))
                 and bb not in region and bb in after]
        found_h = fc.reach_avoiding([bb for bb, _ in exits], kind_test, start=start)
        for bb, s in exits:
            nh += 1
            add("R24h", "ownership release is decided before a later filter / limit can drop the change", bb not in found_h,
                "this exit is reachable from the end of the ownership filter without passing the dispose / unregister test that "
                "releases instance_ownership: an unregister of the owner dropped here keeps the departed writer as owner; witness blocks %s"
                % (found_h.get(bb),), s.line)
    rep.floor("R24h", nh, 2, "NotAdded / Rejected exits after the ownership filter")
    # R24c
    d = fx.fn("DcpsDomainParticipant", "check_missed_reader_deadline")
    df = FnCtx(d)
    rel2 = [(bb, t) for bb, t in df.calls("Vec::retain", "Vec::remove") if t.args and field_of(df.arg(t, 0)) == "instance_ownership"]
    adder(rep, d)("R24c", "a missed requested deadline releases the instance ownership", bool(rel2), "instance_ownership is not touched when a deadline is missed")
    rep.floor("R24a", len(ups_all), 4, "update_state calls in add_reader_change")
    # R24g: once a dispose / unregister has released the instance, the same call does not record an owner again
    alive_idx = {variant_value(fx, "ChangeKind", "Alive"), variant_value(fx, "ChangeKind", "AliveFiltered")}
    pushes = [bb for bb, t in fc.calls("Vec::push") if t.args and field_of(fc.arg(t, 0)) == "instance_ownership"]

    def alive_edge(e, outcome, ce):
        return e[0] == "discr" and E.strip_casts(e[1])[0] == "param" and not E.strip_casts(e[1])[2] and "ChangeKind" in fc.mir.locals[E.strip_casts(e[1])[1]] and outcome in alive_idx
    for rb, t in rel:
        late = [p for p in pushes if p in fc.mir.reachable(rb)]
        found = fc.reach_avoiding(late, alive_edge, start=rb, const_bools=True) if late else {}
        add("R24g", "after a dispose / unregister released the instance, no owner is recorded again in the same call", not found,
            "an InstanceOwnership record is pushed after the release without testing that the change is alive: the writer that gave the instance up stays its owner; witness %s" % dict(found), t.line)
    # R24f: an accepted sample makes its writer the recorded owner, also when an owner was already recorded (takeover)
    ow = fc.field_writes("InstanceOwnership", "owner_handle")
    okw = any(E.mentions_field(fc.rv_expr(s), "writer_guid") for bb, i, s in ow)
    newrec = [(bb, s) for bb, i, s in fc.aggregates("InstanceOwnership")]
    add("R24f", "the ownership record of an instance is updated to the writer of an accepted sample (takeover by a stronger writer)", okw and bool(newrec),
        "owner_handle of an existing ownership record is never overwritten: after a stronger writer took the instance over, the record still names the weaker one, whose samples are accepted again")


def closure_texts(fx, fc, e):
    out = []
    for cb in closure_bodies_in(fx, fc, e):
        kf = FnCtx(cb)
        out.append(" ".join(str(kf.eb.call(t2, b2, 0)) for b2, t2 in kf.mir.calls()))
    return out
