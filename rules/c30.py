"""C30 — Deadline-missed counts increase once per missed period (structural).

R30a  in check_missed_reader_deadline and check_missed_writer_deadline, on the edge where the miss
      condition `now - T > deadline` holds, the timestamp T it was computed from is advanced (re-armed)
      — otherwise the next worker iteration (<= 50 ms later) counts the same period again, for ever
R30b  the advance is by one deadline period
R30c  total_count and total_count_change are incremented together, and the status condition is raised
      for every counted miss
R30e  the deadline checkers visit every entity and every instance: a scan loop is left only when its iterator is exhausted,
      never through a `break` into the enclosing scan
"""
from vplib import expr as E
from vplib.facts import short_ty, path_endswith
from rules.common import FnCtx, cmp_norm, adder

TECHNIQUE = "sibling rule over the two deadline checkers: re-arm event must follow the miss condition (path rule on MIR incl. closures), paired counter writes"
ASSUMPTIONS = ["the worker calls both checkers on every iteration (see C31)"]


def miss_conditions(fc):
    """[(switch bb, true target, X expr, deadline expr)] for `now - X > deadline` comparisons"""
    out = []
    for bb, ce in fc.ces.items():
        c = cmp_norm(E.strip_casts(ce.expr))
        if c is None or ce.true_target is None:
            continue
        op, a, b = c
        if op in ("Lt", "Le"):
            op, a, b = {"Lt": "Gt", "Le": "Ge"}[op], b, a
        if op not in ("Gt", "Ge"):
            continue
        a0 = E.strip_casts(a)
        if E.is_call(a0, "Sub::sub") and len(a0[2]) == 2:
            now, x = a0[2]
            if (E.mentions_local_named(fc.mir, now, "now") or E.mentions_field(now, "now")) and \
               (E.mentions_local_named(fc.mir, b, "deadline") or E.mentions_field(b, "deadline") or E.mentions_field(b, "period")):
                out.append((bb, ce.true_target, x, b))
    return out


def timestamp_field(x):
    """name of the field the timestamp lives in (accessor name or field path)"""
    x = E.strip_casts(x)
    if x[0] == "call":
        if x[4]:
            return [p for p in x[4] if not p.startswith("as ") and not p.isdigit()][-1:] or [x[1].split("::")[-1]]
        return [x[1].split("::")[-1]]
    if x[0] in ("param", "local") and x[2]:
        f = [p for p in x[2] if not p.startswith("as ") and not p.isdigit() and p != "[]"]
        return f[-1:]
    return []


def check_fn(fx, rep, name, status_field, kind):
    b = fx.fn("DcpsDomainParticipant", name)
    fam = [b] + fx.descendants(b)
    n = 0
    for x in fam:
        if x.kind.startswith("Const") or x.kind.startswith("Static"):
            continue
        fc = FnCtx(x)
        for (sb, tt, ts, dl) in miss_conditions(fc):
            n += 1
            m = fc.mir
            fld = timestamp_field(ts)
            events = []
            for bb, t in fc.calls("AddAssign::add_assign"):
                a0 = fc.arg(t, 0)
                if E.same(E.strip_casts(a0), E.strip_casts(ts)) or (fld and E.mentions_field(a0, fld[0])):
                    events.append((bb, fc.arg(t, 1)))
            for bb, t in m.calls():
                if t.callee.indirect or not t.callee.res_id:
                    continue
                cal = fx.bodies.get(t.callee.res_id)
                mutating = cal is not None and cal.inputs and cal.inputs[0].startswith("&mut") and fld and \
                    any(f == fld[0] for a, f in cal.sum_fields) and cal.calls_any("AddAssign::add_assign", "Add::add")
                if cal is not None and fld and (any(f == fld[0] for a, f in cal.sum_writes) or mutating):
                    events.append((bb, fc.eb.operand(t.args[-1]) if len(t.args) > 1 else ("const", 0)))
            for bb, i, s in m.stmts():
                if s.kind == "assign" and s.lhs.proj and fld and s.lhs.proj[-1][0] == "field" and s.lhs.proj[-1][4] == fld[0]:
                    events.append((bb, fc.rv_expr(s)))
            rets = set(m.return_blocks())
            ev_blocks = [bb for bb, _ in events]
            ok = bool(events) and not (m.reachable(tt, removed_blocks=ev_blocks) & rets)
            rep.add("R30a", x.sname, "miss condition re-arms its timestamp (%s)" % (fld[0] if fld else "?"), ok,
                    "`now - %s > deadline` holds but %s is not advanced on that path: every later worker iteration counts the "
                    "same missed period again (total_count grows by one per wake-up)" % (fc.show(ts)[:60], fld[0] if fld else "the timestamp"),
                    x.loc(m.blocks[sb].term.line))
            for bb, amount in events:
                okb = E.mentions_local_named(m, amount, "deadline") or E.mentions_field(amount, "deadline") or E.mentions_field(amount, "period")
                rep.add("R30b", x.sname, "timestamp advances by one deadline period", okb, "advance amount is %s" % fc.show(amount)[:80], x.loc())
    # R30c in the function body
    fc = FnCtx(b)
    m = fc.mir
    tc = [bb for bb, i, s in fc.field_writes(None, "total_count") if s.lhs.proj and any(p[0] == "field" and p[4] == status_field for p in s.lhs.proj)]
    tcc = [bb for bb, i, s in fc.field_writes(None, "total_count_change") if any(p[0] == "field" and p[4] == status_field for p in s.lhs.proj)
           and (lambda e: e[0] == "bin" and e[1] == "Add")(fc.rv_expr(s))]
    add = adder(rep, b)
    add("R30c", "total_count is incremented for a miss", bool(tc), "no increment of %s.total_count" % status_field)
    rets = set(m.return_blocks())
    for bb in tc:
        add("R30c", "total_count_change incremented together with total_count", bool(tcc) and fc.must_accompany(bb, tcc), "unpaired increment")
        raises = [b2 for b2, t2 in fc.calls("DcpsStatusCondition::add_communication_state")
                  if (lambda a: a[0] == "adt" and a[2] == kind)(fc.arg(t2, 1))]
        heads = [h for h, t3 in fc.calls("Iterator::next")]
        r = m.reachable(bb, removed_blocks=raises)
        esc = bool(r & rets) or any(h in r for h in heads if bb in m.reachable(h) and h != bb and not any(rb in m.reachable(bb) and h in m.reachable(rb) and False for rb in raises))
        add("R30c", "every counted miss raises the %s communication state" % kind, bool(raises) and not (r & rets) and all(rb in m.reachable(bb) for rb in raises[:1]),
            "a counted miss can end the function without add_communication_state(%s)" % kind)
    return n


def scans_are_complete(fx, rep, names):
    """R30e: the deadline checkers visit every entity and every instance: a `for` loop of these functions is left only through
    the end of its iterator (the None arm of `next()`), never through a `break` of the body into the enclosing scan — an early exit
    leaves the instances after it unchecked, their misses are never counted (a `return` that abandons the whole check is not
    decided here)."""
    n = 0
    for nm in names:
        b = fx.fn("DcpsDomainParticipant", nm)
        fc = FnCtx(b)
        m = fc.mir
        loops = m.natural_loops()
        for h, body in sorted(loops.items()):
            # the block that tests the iterator's next() for this loop
            tests = [bb for bb in body if bb in fc.ces and fc.ces[bb].expr[0] == "discr" and E.is_call(fc.ces[bb].expr[1], "Iterator::next")
                     and not fc.ces[bb].expr[1][4] and any(s not in body for s in m.succ(bb))]
            if not tests:
                continue
            n += 1
            # exits that stay inside an enclosing loop (`break` out of the instance scan into the entity scan); an exit that
            # leaves every loop (`return` when an entity has vanished) ends the whole check and is not what this rule is about
            outer = set()
            for h2, body2 in loops.items():
                if h2 != h and body < body2:
                    outer |= body2
            early = [(bb, s) for bb in sorted(body) for s in m.succ(bb)
                     if s not in body and bb not in tests and not m.blocks[s].cleanup and s in outer]
            adder(rep, b)("R30e", "the scan loop is left only when its iterator is exhausted", not early,
                          "the loop can be left early through %s: entities / instances after that point are never checked for a missed deadline"
                          % [(x, m.blocks[x].term.line) for x, _ in early][:3], m.blocks[h].term.line)
    return n


def run(ctx, rep):
    fx = ctx.facts
    ne = scans_are_complete(fx, rep, ("check_missed_reader_deadline", "check_missed_writer_deadline"))
    rep.floor("R30e", ne, 4, "scan loops of the deadline checkers")
    n1 = check_fn(fx, rep, "check_missed_reader_deadline", "requested_deadline_missed_status", "RequestedDeadlineMissed")
    n2 = check_fn(fx, rep, "check_missed_writer_deadline", "offered_deadline_missed_status", "OfferedDeadlineMissed")
    rep.floor("R30a", n1 + n2, 2, "deadline miss conditions (reader + writer)")
    # R30d: "no miss is reported while samples keep arriving": every sample that arrives for an instance restarts its deadline
    # period, stored or not — each update_state call of add_reader_change passes Some(reception_timestamp)
    b = fx.fn("DataReaderEntity", "add_reader_change")
    fc = FnCtx(b)
    from rules.common import closure_env, subst_captures
    ups = fc.calls_with_closures(fx, "InstanceState::update_state")
    k = 0
    for bb, t0, inner, kf in ups:
        k += 1
        if inner is None:
            t = t0
            a = E.strip_casts(fc.arg(t, 2)) if len(t.args) > 2 else ("rv", "?")
        else:
            # the call sits in a closure (`find(..).map(|i| i.update_state(kind, Some(ts)))`): its argument in the function's terms
            t = inner
            a = E.strip_casts(subst_captures(kf.arg(t, 2), closure_env(fc, kf.body))) if len(t.args) > 2 else ("rv", "?")
        ok = a[0] == "adt" and a[2] == "Some" and a[3] and E.strip_casts(a[3][0])[0] == "param" and "Time" in fc.mir.locals[E.strip_casts(a[3][0])[1]]
        adder(rep, b)("R30d", "an arriving sample restarts the instance's deadline period (update_state gets Some(reception_timestamp))", ok,
                      "update_state is called with %s: a sample that is then filtered or rejected no longer refreshes last_received_time_stamp and a deadline miss is reported although samples keep arriving" % fc.show(a)[:60], t.line)
    rep.floor("R30d", k, 4, "update_state calls in add_reader_change")
