"""C11 — Instance identity: same instance handle exactly when key fields are equal.

Equality over all values is not decided. Decided are the structural necessary conditions:

R11a  one derivation: every instance handle on the data path comes from get_instance_handle_from_key_holder_data — the writer's
      CacheChange.instance_handle, the reader's handle when no key hash travelled (get_instance_handle_from_dynamic_data, which is
      that function applied to KeyHolderData::from_dynamic_data), or the 16 bytes of PID_KEY_HASH that the writer filled from it
R11b  the key holder contains key members only: fill_struct_key_holder_data copies a member only under `is_key`, and otherwise
      only descends into nested non-optional structures (so non-key members cannot influence the handle)
R11c  the key holder *type* and the key holder *data* are built by sibling walks with the same two conditions (is_key; nested
      STRUCTURE and not optional), so the serialized member set and order are those of the type on both writer and reader
R11d  the key hash is carried unchanged: as_data_submessage / as_data_frag_submessage put CacheChange.instance_handle into PID_KEY_HASH, and
      try_from_data_submessage takes exactly the 16 bytes of PID_KEY_HASH
"""
from vplib import expr as E
from rules.common import FnCtx, adder, leaf_defs

TECHNIQUE = "who-computes rule over resolved calls and definitions, guard dominance in the key-holder walks, sibling condition agreement"
ASSUMPTIONS = ["the XCDR serializer is injective on key holder values (C09)"]

FN = "get_instance_handle_from_key_holder_data"


def run(ctx, rep):
    fx = ctx.facts
    core = [b for b in fx.bodies.values() if b.item_name == FN and b.is_fn_like()]
    rep.floor("R11a", len(core), 1, FN)
    dyn = [b for b in fx.bodies.values() if b.item_name == "get_instance_handle_from_dynamic_data" and b.is_fn_like()]
    for b in dyn:
        fc = FnCtx(b)
        ok = bool(fc.calls(FN)) and bool(fc.calls("KeyHolderData::from_dynamic_data"))
        adder(rep, b)("R11a", "get_instance_handle_from_dynamic_data = key-holder handle of KeyHolderData::from_dynamic_data", ok, "does not go through the key holder")
    # writer: CacheChange.instance_handle
    n = 0
    for b in fx.bodies.values():
        if not b.is_fn_like() or "::tests::" in b.sname or not b.sum_aggs or not any(a.endswith("CacheChange::CacheChange") for a in b.sum_aggs):
            continue
        if "data_writer_entity" not in b.sname:
            continue
        fc = FnCtx(b)
        for bb, i, s in fc.aggregates("CacheChange"):
            flds = s.rv.agg.get("fields") or []
            if "instance_handle" not in flds:
                continue
            n += 1
            v = E.strip_casts(fc.rv_expr(s)[3][flds.index("instance_handle")])
            ok = E.mentions_call(v, FN)
            why = ""
            if not ok:
                # a parameter: every caller must pass a handle computed by FN
                ps = [x for x in E.walk(v) if x[0] == "param" and not x[2]]
                if ps:
                    pidx = ps[0][1]
                    callers = fx.callers_of(b.id)
                    ok = bool(callers)
                    for c in callers:
                        if "writer_methods" not in c.sname:
                            # builtin (discovery / type lookup) writers: the key of a builtin topic is the 16-byte GUID itself
                            continue
                        cf = FnCtx(c)
                        for cb, t in cf.mir.calls():
                            if not t.callee.indirect and t.callee.res_id == b.id and pidx - 1 < len(t.args):
                                a = cf.arg(t, pidx - 1)
                                if not E.mentions_call(a, FN):
                                    ok = False
                                    why = "caller %s passes %s" % (c.sname.split("::")[-1], cf.show(a)[:100])
            adder(rep, b)("R11a", "writer's CacheChange.instance_handle is the key-holder handle of the sample", ok,
                          why or "instance_handle %s is not computed by %s" % (fc.show(v)[:100], FN), s.line)
    rep.floor("R11a", n, 3, "CacheChange constructions in the writer")
    # reader: change_instance_handle
    pr = [b for b in fx.bodies.values() if b.item_name == "process_user_defined_received_cache_changes" and b.is_fn_like()]
    for b in pr:
        fc = FnCtx(b)
        calls = fc.calls("add_reader_change")
        adder(rep, b)("R11a", "received changes reach add_reader_change", bool(calls), "no add_reader_change call")
        for bb, t in calls:
            # the handle argument: every definition is either the travelled key hash or the computed handle
            hand = None
            for i in range(len(t.args)):
                a = fc.arg(t, i)
                if E.mentions_call(a, "InstanceHandle::new") or E.mentions_call(a, "get_instance_handle_from_dynamic_data") or (E.strip_casts(a)[0] == "local"):
                    hand = a
            ok = False
            detail = ""
            for i in range(len(t.args)):
                a = E.strip_casts(fc.arg(t, i))
                src = a
                # through Into::into
                if a[0] == "call" and a[1].endswith("Into::into") and a[2]:
                    src = E.strip_casts(a[2][0])
                if src[0] == "local":
                    exprs = leaf_defs(fc, src)
                    if exprs and any(E.mentions_call(x, "get_instance_handle_from_dynamic_data") or E.mentions_field(x, "instance_handle") for x in exprs):
                        ok = all(E.mentions_call(x, "get_instance_handle_from_dynamic_data") or (E.mentions_call(x, "InstanceHandle::new") and E.mentions_field(x, "instance_handle")) for x in exprs)
                        detail = "; ".join(fc.show(x)[:80] for x in exprs)
            adder(rep, b)("R11a", "reader's instance handle is the travelled key hash or the key-holder handle of the payload", ok,
                          "handle definitions: %s" % detail, t.line)
    # R11b / R11c
    walks = {}
    for b in fx.bodies.values():
        if b.item_name in ("fill_struct_key_holder_data", "fill_struct_key_holder_type") and b.is_fn_like():
            walks[b.item_name] = b
    rep.floor("R11b", len(walks), 2, "key holder walks")
    conds = {}
    for name, b in walks.items():
        fc = FnCtx(b)

        def is_key(e, outcome, ce):
            e0 = E.strip_casts(e)
            return e0[0] in ("param", "local", "call") and (E.mentions_field(e0, "is_key") or (e0[0] == "call" and e0[4] and e0[4][-1] == "is_key")) and outcome == "true"
        ev = [bb for bb, t in fc.mir.calls() if not t.callee.indirect and t.callee.method() in ("set_value", "push")]
        found = fc.reach_avoiding(ev, is_key)
        adder(rep, b)("R11b", "%s takes a member only when it is a key member" % name, bool(ev) and not found,
                      "a member is copied into the key holder on a path that does not test is_key (non-key members would change the handle)")
        # recursion only under kind == STRUCTURE and !is_optional
        rec = [bb for bb, t in fc.mir.calls() if not t.callee.indirect and t.callee.res_id == b.id]

        def nested(e, outcome, ce):
            e0 = E.strip_casts(e)
            return (E.mentions_field(e0, "is_optional") or (e0[0] == "call" and e0[4] and e0[4][-1] == "is_optional")) and outcome == "false"
        f2 = fc.reach_avoiding(rec, nested)
        adder(rep, b)("R11c", "%s descends only into non-optional nested members" % name, bool(rec) and not f2, "recursion not guarded by !is_optional")
        sig = []
        for sb, ce in sorted(fc.ces.items()):
            s = E.show(E.strip_casts(ce.expr), fc.mir)
            for key in ("is_key", "is_optional", "STRUCTURE", "get_kind", "kind"):
                if key in s:
                    sig.append(key)
                    break
        conds[name] = sig
    if len(conds) == 2:
        a, b2 = conds["fill_struct_key_holder_data"], conds["fill_struct_key_holder_type"]
        norm = lambda l: [("kind" if x in ("get_kind", "STRUCTURE", "kind") else x) for x in l]
        # the order of side-effect free tests inside a conjunction is not behaviour: the two walks must test the same conditions
        rep.add("R11c", "key_and_instance_handle", "the type walk and the data walk test the same conditions", sorted(set(norm(a))) == sorted(set(norm(b2))),
                "data walk tests %s, type walk tests %s" % (a, b2))
    # R11e: key-only changes (dispose / unregister) carry the serialized key holder, which is what a reader without the key hash
    # deserializes with the key holder type to derive the handle
    ke = 0
    for name in ("dispose_w_timestamp", "unregister_w_timestamp"):
        for b in fx.bodies.values():
            if b.item_name != name or not b.is_fn_like() or "DataWriterEntity" not in (b.impl_self or ""):
                continue
            fc = FnCtx(b)
            for bb, i, s in fc.aggregates("CacheChange"):
                flds = s.rv.agg.get("fields") or []
                if "data_value" not in flds:
                    continue
                ke += 1
                v = fc.rv_expr(s)[3][flds.index("data_value")]
                ok = E.mentions_call(v, "KeyHolderData::as_dynamic_data") or E.mentions_call(v, "as_dynamic_data")
                adder(rep, b)("R11e", "%s sends the serialized key holder as payload" % name, ok,
                              "payload is %s: a reader that receives this change without PID_KEY_HASH deserializes it with the key holder type and derives another handle" % fc.show(v)[:140], s.line)
    rep.floor("R11e", ke, 2, "key-only CacheChange constructions")
    # R11d
    k = 0
    for name in ("as_data_submessage",):
        for b in fx.bodies.values():
            if b.item_name != name or not b.is_fn_like() or "CacheChange" not in (b.impl_self or b.sname) and "cache_change" not in b.sname:
                continue
            k += 1
            fc = FnCtx(b)
            ok = False
            for bb, t in fc.calls("Parameter::new"):
                pid, val = E.strip_casts(fc.arg(t, 0)), fc.arg(t, 1)
                if pid == ("const", 0x70) and E.mentions_field(val, "instance_handle"):
                    ok = True
            adder(rep, b)("R11d", "%s puts CacheChange.instance_handle into PID_KEY_HASH" % name, ok, "no Parameter::new(PID_KEY_HASH, instance_handle)")
    for b in fx.bodies.values():
        if b.item_name == "try_from_data_submessage" and b.is_fn_like():
            k += 1
            fc = FnCtx(b)
            ok = False
            for bb, i, s in fc.aggregates("CacheChange"):
                flds = s.rv.agg.get("fields") or []
                v = E.strip_casts(fc.rv_expr(s)[3][flds.index("instance_handle")])
                exprs = [v]
                if v[0] == "local" and not v[2]:
                    exprs = [E.strip_casts(fc._def_expr(d)) for d in fc.mir.whole_defs(v[1])]
                ok = any(E.mentions_call(x, "TryFrom::try_from") and E.mentions_call(x, "Parameter::value") for x in exprs) and \
                    all(E.mentions_call(x, "TryFrom::try_from") or (x[0] == "adt" and x[2] == "None") for x in exprs)
            cl = [c for c in fx.descendants(b) if c.kind.startswith("Closure")]
            pidok = False
            for c in cl:
                cf = FnCtx(c)
                for bb, i, s in cf.mir.stmts():
                    if s.kind == "assign" and s.rv is not None and s.rv.kind == "binop" and s.rv.op == "Eq":
                        e = cf.rv_expr(s)
                        if E.strip_casts(e[3]) == ("const", 0x70) or E.strip_casts(e[2]) == ("const", 0x70):
                            pidok = True
            adder(rep, b)("R11d", "reader takes the 16 bytes of PID_KEY_HASH as the travelled handle", ok and pidok, "instance_handle is not <[u8;16]>::try_from(value of PID_KEY_HASH)")
    rep.floor("R11d", k, 2, "key hash carriers")
