"""C06 — No datagram can crash, hang or exhaust a running participant.

Decided statically as a reachability property (T-REACH, rules/reach.py) over the receive path of the participant's worker:
entry points are DcpsDomainParticipant::handle_data (decode + submessage dispatch) and the two functions that turn the received
cache changes into samples / discovery state (process_builtin_cache_changes, process_user_defined_received_cache_changes).

R06a  every panic / bounds / overflow / division / unwrap / wire-sized allocation / value-bounded loop site reachable from the
      entries is discharged by a rule (D1..D16, DL1..DL4 of reach.py) or is in the reviewed table tables/accepted_sites_c06.json
R06b  struct invariants the discharge rules rely on hold at every construction site (numBits <= 256, ParameterList.data >= 4 bytes,
      DataFragSubmessage.fragment_size != 0)
R06c  number-set constructors only receive member sets cut to 256 numbers from their base (shared with C07)
R06e  the submessage handlers contain no iteration over a range of received sequence numbers (the GAP handler marks the last
      number of gapStart..gapList.base instead of looping), and every consumer of RtpsWriterProxy::missing_changes() — a range whose
      end is HEARTBEAT.lastSN — cuts it with take(n) or only counts it (DL4 in R06a reports the consumer that does not)

Scope (stated, not hidden): the sending path that handle_data can trigger (process_pending_write_samples, the XTypes serializer,
DataWriterEntity) works on locally written samples, not on received bytes, and is not traversed. "Afterwards the participant
still answers API calls" is decided only as "no reachable panic in the worker's receive path"; memory use is decided only as
"no allocation sized by a decoded integer without a bound".
"""
from vplib import expr as E
from rules.common import FnCtx
from rules import reach as RC
from rules.c07 import number_set_callers

TECHNIQUE = ("call-graph reachability from the worker's receive entry points over resolved MIR; per-site discharge by dominating-comparison / "
             "interval / bounded-iteration / struct-invariant rules; reviewed table (function, kind, count) for the remainder")
ASSUMPTIONS = ["64-bit target", "panics inside core/alloc functions other than the enumerated indexers / unwraps / allocators / div_ceil are not modelled",
               "user listeners and the sending path reached from handle_data are outside the traversal (local data, not received bytes)",
               "transport threads (socket read loop) are covered only through the decoders (C07)"]

ENTRY_NAMES = ("handle_data", "process_builtin_cache_changes", "process_user_defined_received_cache_changes",
               # the per-iteration duties of the worker that consume what the decoders produced (discovery, type lookup, matching)
               "process_discovered_participants_detector_cache_change", "process_builtin_publications_detector_cache_change",
               "process_builtin_subscriptions_detector_cache_change", "process_builtin_topics_detector_cache_change",
               "process_builtin_type_lookup_request_cache_change", "process_builtin_type_lookup_reply_cache_change",
               "request_topic_type_representation", "process_discovered_readers", "process_discovered_writers")
SKIP_PREFIXES = ("xtypes::serializer::", "dcps::dcps_domain_participant::data_writer_entity::", "dcps::listeners::", "dds_async::", "dds::",
                 "rtps_data_representation_serialization::")
SKIP_NAMES = ("process_pending_write_samples",)


def skip(b):
    s = b.sname
    return any(p in s for p in SKIP_PREFIXES) or (b.item_name in SKIP_NAMES) or "::tests::" in s


def run(ctx, rep):
    fx = ctx.facts
    ent = [b.id for b in fx.bodies.values() if b.kind in ("Fn", "AssocFn") and b.item_name in ENTRY_NAMES and "DcpsDomainParticipant" in (b.impl_self or b.sname)
           or (b.kind in ("Fn", "AssocFn") and b.item_name in ENTRY_NAMES and "communication_methods" in b.sname)]
    ent = sorted(set(ent))
    rep.floor("R06a", len(ent), 12, "receive-path entry points of the worker")
    sites, seen, groups = RC.run_reach(fx, rep, ent, "accepted_sites_c06.json", "R06a", skip_fn=skip)
    rep.floor("R06a", len(sites), 300, "panic / allocation / loop sites reachable from the receive path")
    n = RC.check_field_invariants(fx, rep, "R06b")
    rep.floor("R06b", n, 7, "construction sites of types with a field invariant")
    k = number_set_callers(fx, rep, "R06c")
    rep.floor("R06c", k, 4, "callers of the number-set constructors")
    # R06e: no range of sequence numbers is iterated in the submessage handlers
    hs = 0
    for name in ("handle_gap_submessage", "handle_heartbeat_submessage", "handle_data_submessage", "handle_data_frag_submessage", "handle_data"):
        for b in fx.bodies.values():
            if b.item_name != name or not b.is_fn_like() or "communication_methods" not in b.sname:
                continue
            hs += 1
            fc = FnCtx(b)
            bad = []
            for bb, i, s in fc.mir.stmts():
                if s.kind == "assign" and s.rv is not None and s.rv.kind == "aggregate" and str(s.rv.agg.get("adt", "")).endswith("ops::Range") and not s.lhs.proj:
                    ty = fc.mir.locals[s.lhs.local]
                    if "i64" in ty:
                        bad.append((s.line, E.show(fc.rv_expr(s), fc.mir)[:120]))
            for bb, t in fc.mir.calls():
                if not t.callee.indirect and t.callee.is_("RangeInclusive::new") and t.dest is not None and "i64" in fc.mir.locals[t.dest.local]:
                    bad.append((t.line, "RangeInclusive::new"))
            rep.add("R06e", b.sname, "no iteration over a range of received sequence numbers", not bad,
                    "" if not bad else "a range of sequence numbers taken from the submessage is iterated (up to 2^63 steps in the single worker task): %s" % bad[:2],
                    b.loc(bad[0][0] if bad else None))
    rep.floor("R06e", hs, 5, "submessage handlers")
