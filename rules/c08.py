"""C08 — RTPS messages round-trip through their wire encoding (writer's and reader's tables agree).

Round-trip equality quantifies over runtime values and is not decided. What is decided is the part of it that is visible in the
shape of the code and whose violation breaks the round trip: the encoder and the decoder of every submessage are sibling
implementations of one wire layout, and they must agree on it.

R08a  field order: for every submessage type, the order in which write_submessage_elements_into_bytes writes the struct's fields
      equals the order in which try_from_bytes reads the values that end up in those fields (fields present on both sides)
R08b  flags: the flag a decoder takes from submessage_header.flags()[k] lands in the struct field that the encoder puts at
      position k-1 of SubmessageHeaderWrite::new's flag list (bit 0 is the endianness flag)
R08c  number sets: decoder and encoder of SequenceNumberSet / FragmentNumberSet use the same word count M = numBits.div_ceil(32)
R08d  SequenceNumber: written as (high: i32 = sn >> 32, low: u32 = sn), read as (high << 32) + low, high first on both sides
R08e  primitives: every integer decoder selects from_le_bytes / from_be_bytes by the endianness argument; every integer encoder
      writes to_le_bytes, and the submessage header written sets the endianness bit
R08f  octetsToInlineQos: the constant DATA / DATA_FRAG encoders write equals the byte size of the fields they write between that
      field and the inline QoS, and the decoder's offset `+ 4` is the size of extraFlags + octetsToInlineQos
R08g  submessage length: write_submessage_into_bytes writes the header with (position after the elements) - (header position + 4)

Not decided: values beyond the 16-bit length field (`len as u16`), padding of parameter values.
"""
from vplib import expr as E
from vplib.facts import path_endswith, short_ty
from rules.common import FnCtx, adder

TECHNIQUE = "sibling cross-check of encoder and decoder per wire type over MIR: ordered field reads vs writes, flag index maps, word-count expressions, split/merge shapes"
ASSUMPTIONS = ["struct field names identify the wire fields on both sides (decoders fill the struct with an aggregate, encoders write self.<field>)"]

SIZES = {"EntityId": 4, "i64": 8, "u32": 4, "u16": 2, "i32": 4, "i16": 2, "u8": 1, "SequenceNumber": 8, "FragmentNumber": 4, "Count": 4}


def rpo_index(m):
    return {b: i for i, b in enumerate(m._rpo())}


def sub_types(fx):
    out = []
    for b in fx.bodies.values():
        if b.item_name == "write_submessage_elements_into_bytes" and b.impl_self and b.is_fn_like() and "Submessage" in (b.impl_trait or ""):
            out.append(b)
    return out


def decode_field_order(fx, dec):
    """field name -> rank of the read that feeds it; plus number of reads that feed no field"""
    fc = FnCtx(dec)
    m = fc.mir
    rpo = rpo_index(m)
    reads = {}
    for bb, t in m.calls():
        if not t.callee.indirect and t.callee.method() in ("try_read_from_bytes",):
            reads[bb] = rpo[bb]
    agg = None
    for bb, i, s in m.stmts():
        if s.kind == "assign" and s.rv is not None and s.rv.kind == "aggregate" and s.rv.agg.get("k") == "adt" and (dec.impl_self or "").split("::")[-1] == str(s.rv.agg.get("adt", "")).split("::")[-1]:
            agg = s
    if agg is None:
        return None, None, fc
    flds = agg.rv.agg.get("fields") or []
    e = fc.rv_expr(agg)
    order = {}
    used = set()
    def direct_read(v, depth=0):
        """block of the read whose result IS the value (through `?`), following a conditionally assigned local"""
        v0 = E.strip_casts(v)
        if v0[0] == "call" and v0[1].endswith("try_read_from_bytes") and v0[3] in reads:
            return v0[3]
        if E.is_call(v0, "Try::branch") and v0[2]:
            return direct_read(v0[2][0], depth + 1)
        if v0[0] == "local" and not v0[2] and depth < 3:
            for d in m.whole_defs(v0[1]):
                r = direct_read(fc._def_expr(d), depth + 1)
                if r is not None:
                    return r
        return None
    for f, v in zip(flds, e[3]):
        best = direct_read(v)
        if best is not None:
            order[f] = reads[best]
            used.add(best)
    return order, [reads[b] for b in reads if b not in used], fc


def encode_field_order(enc):
    fc = FnCtx(enc)
    m = fc.mir
    rpo = rpo_index(m)
    out = []
    consts = []
    for bb, t in m.calls():
        if t.callee.indirect or t.callee.method() != "write_into_bytes" or not t.args:
            continue
        a = E.strip_casts(fc.arg(t, 0))
        if a[0] == "param" and a[1] == 1 and a[2]:
            out.append((rpo[bb], a[2][0], t))
        else:
            consts.append((rpo[bb], a, t))
    out.sort()
    consts.sort(key=lambda x: x[0])
    return out, consts, fc


def run(ctx, rep):
    fx = ctx.facts
    encs = sub_types(fx)
    rep.floor("R08a", len(encs), 12, "submessage types with an encoder")
    n_flags = 0
    for enc in sorted(encs, key=lambda b: b.sname):
        ty = (enc.impl_self or "").split("::")[-1]
        decs = [b for b in fx.bodies.values() if b.item_name == "try_from_bytes" and b.is_fn_like() and (b.impl_self or "").split("::")[-1] == ty and "::tests::" not in b.sname]
        add = adder(rep, enc)
        if len(decs) != 1:
            add("R08a", "%s has exactly one decoder" % ty, False, "found %d try_from_bytes for %s" % (len(decs), ty))
            continue
        dec = decs[0]
        dorder, unused_reads, dfc = decode_field_order(fx, dec)
        eorder, econsts, efc = encode_field_order(enc)
        if dorder is None:
            add("R08a", "%s decoder builds the struct with one aggregate" % ty, False, "no aggregate of %s in try_from_bytes" % ty)
            continue
        common = [f for _, f, _ in eorder if f in dorder]
        dseq = sorted(common, key=lambda f: dorder[f])
        eseq = common
        add("R08a", "%s: fields are read in the order they are written" % ty, dseq == eseq and len(common) == len([1 for _, f, _ in eorder if f in dorder]),
            "encoder writes %s but decoder reads %s" % (eseq, dseq), eorder[0][2].line if eorder else None)
        # every field written is also read (except payload-like fields which the decoder slices)
        missing = [f for _, f, _ in eorder if f not in dorder and f not in ("serialized_payload", "inline_qos")]
        add("R08a", "%s: every field written from the struct is filled by a read" % ty, not missing, "written but never read into the struct: %s" % missing)
        # R08b flags
        hdr = [b for b in fx.bodies.values() if b.item_name == "write_submessage_header_into_bytes" and (b.impl_self or "").split("::")[-1] == ty and b.is_fn_like()]
        if hdr:
            hf = FnCtx(hdr[0])
            enc_flags = {}
            for bb, t in hf.calls("SubmessageHeaderWrite::new"):
                lst = E.strip_casts(hf.arg(t, 1))
                items = []
                for x in E.walk(lst):
                    if x[0] == "agg" and x[1] in ("array",):
                        items = list(x[2])
                        break
                for i, it in enumerate(items):
                    it0 = E.strip_casts(it)
                    if it0[0] == "param" and it0[2]:
                        enc_flags[it0[2][-1]] = i + 1
            dec_flags = {}
            agg = None
            for bb, i, s in dfc.mir.stmts():
                if s.kind == "assign" and s.rv is not None and s.rv.kind == "aggregate" and s.rv.agg.get("k") == "adt" and str(s.rv.agg.get("adt", "")).split("::")[-1] == ty:
                    agg = s
            if agg is not None:
                flds = agg.rv.agg.get("fields") or []
                ev = dfc.rv_expr(agg)
                for j, (f, v) in enumerate(zip(flds, ev[3])):
                    v0 = E.strip_casts(v)
                    # flags()[k]: a call to SubmessageHeaderRead::flags indexed by a constant
                    if v0[0] == "call" and v0[1].endswith("SubmessageHeaderRead::flags") and v0[4]:
                        dec_flags[f] = flag_index_of(dfc, agg.rv.ops[j])
            if enc_flags or dec_flags:
                n_flags += 1
                adder(rep, hdr[0])("R08b", "%s: flag positions written match the positions read" % ty, enc_flags == dec_flags,
                                   "encoder puts %s, decoder takes %s (bit 0 is the endianness flag)" % (sorted(enc_flags.items(), key=lambda x: x[1]), sorted(dec_flags.items(), key=lambda x: str(x[1]))))
        # R08f octetsToInlineQos
        if ty in ("DataSubmessage", "DataFragSubmessage"):
            consts = [(r, a, t) for r, a, t in econsts if a[0] in ("const", "named", "promoted")]
            val = None
            rank = None
            if len(consts) >= 2:
                rank = consts[1][0]
                a = consts[1][1]
                val = a[1] if a[0] == "const" else None
                if val is None:
                    val = fx_const_value(fx, a)
            between = []
            for r, f, t in eorder:
                if rank is not None and r > rank and f not in ("inline_qos", "serialized_payload"):
                    fty = field_type(fx, ty, f)
                    between.append((f, SIZES.get(short_ty(fty).split("::")[-1], SIZES.get(fty))))
            tot = sum(s for _, s in between if s) if between and all(s for _, s in between) else None
            add("R08f", "%s: octetsToInlineQos constant equals the bytes written up to the inline QoS" % ty, val is not None and tot == val,
                "constant %s but the fields in between take %s bytes (%s)" % (val, tot, between))
    rep.floor("R08b", n_flags, 5, "submessage types with flags")
    # decoder `+ 4`
    for ty in ("DataSubmessage", "DataFragSubmessage"):
        dec = fx.fn(ty, "try_from_bytes")
        fc = FnCtx(dec)
        ok = False
        for bb, i, s in fc.mir.stmts():
            if s.kind == "assign" and s.rv is not None and s.rv.kind == "binop" and s.rv.op.startswith("Add"):
                e = fc.rv_expr(s)
                a, b = E.strip_casts(e[2]), E.strip_casts(e[3])
                if (b == ("const", 4) and E.mentions_call(a, "try_read_from_bytes")) or (a == ("const", 4) and E.mentions_call(b, "try_read_from_bytes")):
                    ok = True
        adder(rep, dec)("R08f", "%s: inline QoS offset is octetsToInlineQos + 4 (extraFlags and the offset field itself)" % ty, ok, "the decoder does not add 4 to octetsToInlineQos")
    # R08c
    for ty in ("SequenceNumberSet", "FragmentNumberSet"):
        dec = [b for b in fx.find_fns(self_ty=ty, method="try_read_from_bytes") if "::tests::" not in b.sname]
        enc = [b for b in fx.find_fns(self_ty=ty, method="write_into_bytes") if "::tests::" not in b.sname]
        if len(dec) != 1 or len(enc) != 1:
            rep.add("R08c", ty, "one decoder and one encoder", False, "found %d / %d" % (len(dec), len(enc)))
            continue
        df, ef = FnCtx(dec[0]), FnCtx(enc[0])

        def word_count(fc):
            out = []
            for bb, t in fc.mir.calls():
                if not t.callee.indirect and t.callee.method() == "div_ceil":
                    a, b = E.strip_casts(fc.arg(t, 0)), E.strip_casts(fc.arg(t, 1))
                    out.append(("div_ceil", b, t.line))
            for bb, i, s in fc.mir.stmts():
                if s.kind == "assign" and s.rv is not None and s.rv.kind == "binop" and s.rv.op in ("Div", "Shr"):
                    e = fc.rv_expr(s)
                    if E.mentions_field(e[2], "num_bits") or E.mentions_call(e[2], "try_read_from_bytes"):
                        out.append((s.rv.op, E.strip_casts(e[3]), s.line))
            return out
        dw, ew = word_count(df), word_count(ef)
        # only the computations that size the bitmap transfer: decoder's feeds take(), encoder's feeds the slice
        dshape = sorted({(k, v) for k, v, _ in dw if k == "div_ceil" or True})
        eshape = sorted({(k, v) for k, v, _ in ew})
        dmain = [x for x in dw if x[0] == "div_ceil"] or dw
        adder(rep, dec[0])("R08c", "%s: decoder reads M = numBits.div_ceil(32) bitmap words" % ty,
                           any(k == "div_ceil" and v == ("const", 32) for k, v, _ in dw),
                           "word count expressions in the decoder: %s" % [(k, E.show(v, df.mir)) for k, v, _ in dw])
        adder(rep, enc[0])("R08c", "%s: encoder writes M = numBits.div_ceil(32) bitmap words" % ty,
                           any(k == "div_ceil" and v == ("const", 32) for k, v, _ in ew),
                           "word count expressions in the encoder: %s" % [(k, E.show(v, ef.mir)) for k, v, _ in ew])
        # the decoder's take(M) uses the div_ceil value
        tk = df.calls("Iterator::take")
        okt = False
        for bb, t in tk:
            a = E.strip_casts(df.arg(t, 1))
            okt = okt or E.is_call(a, "div_ceil") or E.mentions_call(a, "div_ceil")
        adder(rep, dec[0])("R08c", "%s: the number of bitmap words read is that M" % ty, okt, "take(..) is not fed by div_ceil(numBits, 32)")
    # R08d SequenceNumber split / merge
    rd = [b for b in fx.bodies.values() if b.item_name == "try_read_from_bytes" and (b.impl_self or "") in ("i64",) and b.is_fn_like()]
    wr = [b for b in fx.bodies.values() if b.item_name == "write_into_bytes" and (b.impl_self or "") in ("i64",) and b.is_fn_like()]
    rep.floor("R08d", len(rd) + len(wr), 2, "SequenceNumber codec functions")
    for b in rd:
        fc = FnCtx(b)
        rpo = rpo_index(fc.mir)
        reads = sorted([(rpo[bb], t) for bb, t in fc.mir.calls() if not t.callee.indirect and t.callee.method() == "try_read_from_bytes"], key=lambda x: x[0])
        tys = [short_self(t) for _, t in reads]
        ok = tys == ["i32", "u32"]
        shape = False
        for bb, i, s in fc.mir.stmts():
            if s.kind == "assign" and s.rv is not None and s.rv.kind == "binop" and s.rv.op.startswith("Add"):
                e = fc.rv_expr(s)
                a, c = E.strip_casts(e[2]), E.strip_casts(e[3])
                if a[0] in ("bin", "ckd") and a[1] == "Shl" and E.strip_casts(a[3]) == ("const", 32):
                    shape = True
        adder(rep, b)("R08d", "SequenceNumber is read as high: i32 then low: u32 and merged as (high << 32) + low", ok and shape, "reads %s, shape ok=%s" % (tys, shape))
    for b in wr:
        fc = FnCtx(b)
        rpo = rpo_index(fc.mir)
        ws = sorted([(rpo[bb], t) for bb, t in fc.mir.calls() if not t.callee.indirect and t.callee.method() == "write_into_bytes"], key=lambda x: x[0])
        shapes = []
        for _, t in ws:
            a = fc.arg(t, 0)
            a0 = a
            kind = None
            for x in E.walk(a0):
                if x[0] == "cast" and x[1] == "i32" and E.strip_casts(x[2])[0] in ("bin", "ckd") and E.strip_casts(x[2])[1] == "Shr" and E.strip_casts(E.strip_casts(x[2])[3]) == ("const", 32):
                    kind = "high"
                    break
                if x[0] == "cast" and x[1] == "u32":
                    kind = kind or "low"
            shapes.append(kind)
        adder(rep, b)("R08d", "SequenceNumber is written as (sn >> 32) as i32 then sn as u32", shapes == ["high", "low"], "write shapes %s" % shapes)
    # R08e primitives
    k = 0
    for b in fx.bodies.values():
        if b.item_name == "try_read_from_bytes" and (b.impl_self or "") in ("i32", "u32", "i16", "u16") and b.is_fn_like():
            k += 1
            cs = b.sum_calls or ()
            le = any(x.endswith("::from_le_bytes") for x in cs)
            be = any(x.endswith("::from_be_bytes") for x in cs)
            fc = FnCtx(b)
            sw = any(ce.is_discr() and (E.strip_casts(ce.expr[1])[0] == "param" and E.strip_casts(ce.expr[1])[1] == 2) for ce in fc.ces.values())
            adder(rep, b)("R08e", "%s decoder handles both byte orders, selected by the endianness argument" % b.impl_self, le and be and sw,
                          "from_le_bytes=%s from_be_bytes=%s switch-on-endianness=%s" % (le, be, sw))
        if b.item_name == "write_into_bytes" and (b.impl_self or "") in ("i32", "u32", "i16", "u16") and b.is_fn_like():
            k += 1
            cs = b.sum_calls or ()
            adder(rep, b)("R08e", "%s encoder writes little-endian" % b.impl_self, any(x.endswith("::to_le_bytes") for x in cs) and not any(x.endswith("::to_be_bytes") for x in cs),
                          "calls: %s" % [x for x in cs if "bytes" in x])
    rep.floor("R08e", k, 8, "integer codec functions")
    hw = fx.fn("SubmessageHeaderWrite", "new")
    hf = FnCtx(hw)
    init = False
    for bb, i, s in hf.mir.stmts():
        if s.kind == "assign" and s.rv is not None and s.rv.kind == "use" and s.rv.ops and s.rv.ops[0].const is not None and s.rv.ops[0].const.get("v") == 1 and hf.mir.locals[s.lhs.local] == "u8":
            init = True
    adder(rep, hw)("R08e", "written submessage headers start from flags = 0b1 (little-endian flag set)", init, "flags_octet is not initialised to 1")
    # R08g
    ws = [b for b in fx.bodies.values() if b.item_name == "write_submessage_into_bytes" and b.is_fn_like() and "tests" not in b.sname]
    rep.floor("R08g", len(ws), 1, "write_submessage_into_bytes")
    for b in ws:
        fc = FnCtx(b)
        ok = False
        for bb, t in fc.calls("write_submessage_header_into_bytes"):
            a = E.strip_casts(fc.arg(t, 1))
            # (pos_after - (header_position + 4)) as u16
            if a[0] in ("bin", "ckd") and a[1] == "Sub":
                r = E.strip_casts(a[3])
                l = E.strip_casts(a[2])
                r2, r3 = (E.strip_casts(r[2]), E.strip_casts(r[3])) if r[0] in ("bin", "ckd") else (None, None)
                if r[0] in ("bin", "ckd") and r[1] == "Add" and ((r3 == ("const", 4) and E.is_call(r2, "position")) or (r2 == ("const", 4) and E.is_call(r3, "position"))) and E.is_call(l, "position"):
                    ok = True
        adder(rep, b)("R08g", "submessage length written = position after the elements - (header position + 4)", ok, "length expression has another shape")


def flag_index_of(fc, op, depth=0):
    """constant k of the `x[k]` the operand was copied from, else '?'"""
    m = fc.mir
    if op.place is None or depth > 4:
        return "?"
    for pr in op.place.proj:
        if pr[0] == "cindex":
            return pr[1]
        if pr[0] == "index":
            for d in m.whole_defs(pr[1]):
                if d[0] == "s" and d[3].rv is not None and d[3].rv.kind == "use" and d[3].rv.ops and d[3].rv.ops[0].const is not None:
                    return d[3].rv.ops[0].const.get("v", "?")
            return "?"
    if not op.place.proj:
        for d in m.whole_defs(op.place.local):
            if d[0] == "s" and d[3].rv is not None and d[3].rv.kind in ("use",) and d[3].rv.ops:
                return flag_index_of(fc, d[3].rv.ops[0], depth + 1)
    return "?"


def short_self(t):
    n = t.callee.best_name() or ""
    # <i32 as TryReadFromBytes>::try_read_from_bytes
    import re
    m = re.match(r"<(\w+) as ", n)
    if m:
        return m.group(1)
    q = getattr(t.callee, "qual", None) or ""
    return (t.callee.self_ty or q or n).split("::")[-1] if hasattr(t.callee, "self_ty") else n


def takes_count(fc, line):
    return True


def field_type(fx, ty, f):
    a = fx.adt(ty)
    for v in a["variants"]:
        for n, t in v["fields"]:
            if n == f:
                return t
    return None


def fx_const_value(fx, a):
    """value of a named constant (const item) if the facts carry it"""
    try:
        if a[0] == "named":
            b = fx.bodies.get(a[2]) if len(a) > 2 else None
    except Exception:
        pass
    return None
