"""C33 — Each status change reaches exactly one listener, the most specific enabled one (structural).

For every `ListenerMail::V { .. }` sent through a `listener_sender`:
R33a  the send at level L (owner type of the sender: reader/writer/topic = 0, subscriber/publisher = 1,
      participant = 2) is behind the TRUE edge of `StatusMask::is_enabled(mask of level L, StatusKind::V)`
      and behind the FALSE edges of the same test for every more specific level that exists in the chain;
      no second send of the same kind is reachable from it within one status change
R33b  the listener task of level L handles variant V (its match arm does not diverge)
R33c  new data: DataOnReaders on the subscriber first, DataAvailable otherwise; every status kind has a
      send at every level of its chain (sibling agreement between the kinds)
R33d  every send is followed by add_communication_state(V) for the entity
R33e  every add_communication_state(K) for a kind that has a listener callback sits in a function that
      also runs K's listener cascade (a status change that only raises the status condition reaches no listener)
"""
from collections import defaultdict
from vplib import expr as E
from vplib.facts import path_endswith, short_ty
from rules.common import FnCtx, adder, field_adt, field_adt_defs

TECHNIQUE = "guard-free path search per send site with level classification by owner ADT of mask/sender; sibling agreement across status kinds; match-arm divergence of listener tasks"
ASSUMPTIONS = ["StatusKind names equal ListenerMail variant names (checked against the ADT tables)"]

LEVEL = {"UserDefinedDataReader": 0, "UserDefinedDataWriter": 0, "TopicEntity": 0,
         "UserDefinedSubscriber": 1, "PublisherEntity": 1, "UserDefinedPublisher": 1, "DomainParticipantEntity": 2}
CHAIN = {  # kind -> levels that must exist
    "InconsistentTopic": (0, 2),
}
LISTENER_OF = {("reader", 0): "DcpsDataReaderListener", ("writer", 0): "DcpsDataWriterListener", ("topic", 0): "DcpsTopicListener",
               ("reader", 1): "DcpsSubscriberListener", ("writer", 1): "DcpsPublisherListener",
               ("reader", 2): "DcpsDomainParticipantListener", ("writer", 2): "DcpsDomainParticipantListener", ("topic", 2): "DcpsDomainParticipantListener"}
SIDE = {"DataAvailable": "reader", "DataOnReaders": "reader", "RequestedDeadlineMissed": "reader", "SampleRejected": "reader",
        "SubscriptionMatched": "reader", "RequestedIncompatibleQos": "reader", "PublicationMatched": "writer",
        "OfferedIncompatibleQos": "writer", "OfferedDeadlineMissed": "writer", "InconsistentTopic": "topic"}


def mask_tests(fc):
    """{switch bb: (level, kind, CondExpr)} for is_enabled(mask, &StatusKind::K) tests"""
    out = {}
    for bb, ce in fc.ces.items():
        e = E.strip_casts(ce.expr)
        if E.is_call(e, "StatusMask::is_enabled") and len(e[2]) == 2 and ce.true_target is not None:
            k = e[2][1]
            if not (k[0] == "adt" and path_endswith(k[1], "StatusKind")):
                continue
            t = fc.eb.terms.get(e[3])
            lvl = None
            if t is not None:
                adt = field_adt(fc, t.args[0], "listener_mask")
                lvl = LEVEL.get(adt)
            out[bb] = (lvl, k[2], ce)
    # boolean variables holding an is_enabled result (data_reader_on_data_available_active)
    return out


def sends(fc):
    out = []
    for bb, t in fc.calls("MpscSender::send"):
        if len(t.args) != 2:
            continue
        a = fc.arg(t, 1)
        if a[0] == "adt" and path_endswith(a[1], "ListenerMail"):
            # a sender that is chosen first (`let sender = match level { Entity => &reader.listener_sender, .. }`) stands for one send
            # per choice, located where the choice is made
            for dbb, adt in field_adt_defs(fc, t.args[0], "listener_sender"):
                out.append((bb if dbb is None else dbb, t, a[2], LEVEL.get(adt), adt))
    return out


def listener_arms(fx):
    """listener type -> set of ListenerMail variants whose match arm diverges (panic)"""
    out = {}
    mail = fx.adt("ListenerMail")
    names = [v["name"] for v in mail["variants"]]
    for ty in set(LISTENER_OF.values()):
        try:
            n = fx.fn(ty, "new", inherent=True)
        except Exception:
            continue
        bad = set()
        handled = set()
        for k in fx.descendants(n):
            if k.kind.startswith("Const") or k.kind.startswith("Static"):
                continue
            fc = FnCtx(k)
            m = fc.mir
            for bb, ce in fc.ces.items():
                if ce.expr[0] == "discr" and len(ce.arms) >= 5 and "ListenerMail" in str(m.locals[m.blocks[bb].term.discr.place.local] if m.blocks[bb].term.discr.place else ""):
                    pass
            for bb, b in enumerate(m.blocks):
                t = b.term
                if t.kind == "switch" and len(t.arms) >= len(names) - 1:
                    # is the scrutinee a ListenerMail discriminant?
                    ce = fc.ces.get(bb)
                    if ce is None or ce.expr[0] != "discr":
                        continue
                    for v, tgt in t.arms + [(None, t.otherwise)]:
                        if v is None or v >= len(names):
                            continue
                        # the arm handles the mail if it calls a listener callback (`on_*`) before the next switch
                        r = m.reachable(tgt, removed_blocks=[bb])
                        calls_cb = any(m.blocks[x].term.kind == "call" and not m.blocks[x].term.callee.indirect
                                       and m.blocks[x].term.callee.method().startswith("on_") for x in r)
                        (handled if calls_cb else bad).add(names[v])
        if not handled and not bad:
            bad = set(names)   # the task never looks at the mail: every variant is discarded
        out[ty] = (handled, bad)
    return out


def run(ctx, rep):
    fx = ctx.facts
    arms = listener_arms(fx)
    total_sends = 0
    per_kind_levels = defaultdict(set)
    fn_kinds = defaultdict(set)
    for b in fx.bodies.values():
        if not b.is_fn_like() or not b.builds("ListenerMail"):
            continue
        fc = FnCtx(b)
        m = fc.mir
        add = adder(rep, b)
        tests = mask_tests(fc)
        ss = sends(fc)
        heads = [h for h, t in fc.calls("Iterator::next")]
        for bb, t, kind, lvl, adt in ss:
            total_sends += 1
            fn_kinds[b.id].add(kind)
            add("R33a", "%s send uses a listener_sender of a known level" % kind, lvl is not None,
                "cannot attribute the sender to reader/writer/topic, subscriber/publisher or participant (owner ADT %s)" % adt, t.line)
            if lvl is None:
                continue
            per_kind_levels[kind].add(lvl)
            chain = CHAIN.get(kind, (0, 1, 2))
            if kind == "DataOnReaders":
                chain = (1,)
            # own level: true edge
            def own(e, outcome, ce, lvl=lvl, kind=kind):
                for sb, (l2, k2, c2) in tests.items():
                    if c2 is ce or (E.same(E.strip_casts(c2.expr), E.strip_casts(e))):
                        return l2 == lvl and k2 == kind and outcome == "true"
                return False
            found = fc.reach_avoiding([bb], own)
            add("R33a", "%s to level %d only when that level's mask enables it" % (kind, lvl), bb not in found,
                "send reachable without is_enabled(level-%d mask, %s) being true" % (lvl, kind), t.line)
            for l2 in chain:
                if l2 >= lvl:
                    continue

                def more_specific(e, outcome, ce, l2=l2, kind=kind):
                    for sb, (l3, k3, c3) in tests.items():
                        if c3 is ce or E.same(E.strip_casts(c3.expr), E.strip_casts(e)):
                            return l3 == l2 and k3 == kind and outcome == "false"
                    return False
                found = fc.reach_avoiding([bb], more_specific)
                add("R33a", "%s to level %d only when level %d does not enable it" % (kind, lvl, l2), bb not in found,
                    "a less specific listener is called although the more specific level %d may have the status enabled "
                    "(its mask is not tested, or not on the false edge)" % l2, t.line)
            if kind == "DataAvailable":
                def no_dor(e, outcome, ce):
                    for sb, (l3, k3, c3) in tests.items():
                        if c3 is ce or E.same(E.strip_casts(c3.expr), E.strip_casts(e)):
                            return l3 == 1 and k3 == "DataOnReaders" and outcome == "false"
                    return False
                found = fc.reach_avoiding([bb], no_dor)
                add("R33c", "DataAvailable only when the subscriber does not take DataOnReaders", bb not in found,
                    "on_data_available reachable although the subscriber's mask may enable DATA_ON_READERS", t.line)
            # exactly one: no other send of the same kind reachable within the same status change
            others = [b2 for b2, t2, k2, l2, a2 in ss if k2 == kind and b2 != bb]
            r = m.reachable(bb, removed_blocks=heads)
            add("R33a", "at most one %s listener per status change" % kind, not any(o in r for o in others),
                "a second send of the same kind is reachable after this one", t.line)
            # R33b
            side = SIDE.get(kind)
            lt = LISTENER_OF.get((side, lvl))
            if lt in arms:
                handled, bad = arms[lt]
                add("R33b", "%s handles %s" % (lt, kind), kind in handled and kind not in bad,
                    "the listener task of this level never calls a listener callback for ListenerMail::%s (it panics on it or discards it)" % kind, t.line)
            # R33d
            raises = [b2 for b2, t2 in fc.calls("DcpsStatusCondition::add_communication_state")
                      if (lambda a: a[0] == "adt" and a[2] == kind)(fc.arg(t2, 1))]
            rets = set(m.return_blocks())
            r2 = m.reachable(bb, removed_blocks=raises)
            esc = bool(r2 & rets) or any(h in r2 and bb in m.reachable(h) for h in heads)
            add("R33d", "%s send is followed by add_communication_state(%s)" % (kind, kind), bool(raises) and not esc,
                "the status condition is not raised after the listener was called", t.line)
    rep.floor("R33a", total_sends, 27, "ListenerMail send sites")
    # R33c sibling agreement: every kind has a send at every level of its chain
    mail = fx.adt("ListenerMail")
    for v in mail["variants"]:
        k = v["name"]
        chain = (1,) if k == "DataOnReaders" else CHAIN.get(k, (0, 1, 2))
        missing = [l for l in chain if l not in per_kind_levels.get(k, set())]
        rep.add("R33c", "ListenerMail::" + k, "a listener can be reached at every level of the %s chain" % k, not missing,
                "no send of %s at level(s) %s: a listener installed there with this status enabled is never called "
                "(the other status kinds fall back through all levels)" % (k, missing), mail["file"] + ":" + str(mail["line"]))
    # R33e
    n_e = 0
    for b in fx.bodies.values():
        if not b.is_fn_like() or not b.calls_any("DcpsStatusCondition::add_communication_state"):
            continue
        fc = FnCtx(b)
        for bb, t in fc.calls("DcpsStatusCondition::add_communication_state"):
            a = fc.arg(t, 1)
            if not (a[0] == "adt" and path_endswith(a[1], "StatusKind")):
                continue
            k = a[2]
            if k not in SIDE:
                continue
            n_e += 1
            root = b
            while root.parent in fx.bodies:
                root = fx.bodies[root.parent]
            fam_kinds = set()
            for x in [root] + fx.descendants(root):
                fam_kinds |= fn_kinds.get(x.id, set())
            pair_ok = k in fam_kinds or (k == "DataOnReaders" and "DataAvailable" in fam_kinds) or (k == "DataAvailable" and "DataOnReaders" in fam_kinds)
            rep.add("R33e", b.sname, "status %s raised together with its listener cascade" % k, pair_ok,
                    "add_communication_state(%s) without any ListenerMail::%s send in this function: the change is visible "
                    "through the status condition only, no listener is called" % (k, k), b.loc(t.line))
    rep.floor("R33e", n_e, 10, "add_communication_state sites for listener-backed kinds")
    # R33f: listener and mask change together (a stale mask keeps capturing a status at a level without listener)
    n_f = 0
    for b in fx.bodies.values():
        if not b.is_fn_like() or not b.writes_field(None, "listener_sender"):
            continue
        fc = FnCtx(b)
        sw = [(bb, s) for bb, i, s in fc.field_writes(None, "listener_sender")]
        mw = [bb for bb, i, s in fc.field_writes(None, "listener_mask")]
        for bb, s in sw:
            n_f += 1
            rep.add("R33f", b.sname, "listener_sender and listener_mask are replaced together", bool(mw) and fc.must_accompany(bb, mw),
                    "a path replaces the listener without storing the new mask: the old mask keeps selecting this level for statuses "
                    "it no longer has a listener for, so the change reaches no listener instead of falling back", b.loc(s.line))
    rep.floor("R33f", n_f, 5, "listener_sender assignments (set_listener functions)")
