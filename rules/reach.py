"""T-REACH: panic / unbounded-work sites reachable from a set of entry functions, with discharge rules.

Site kinds
  assert:<kind>        MIR Assert terminators (BoundsCheck, Overflow(op), DivisionByZero, RemainderByZero, OverflowNeg)
  panic                calls to core::panicking::* (panic!, todo!, unimplemented!, unreachable!, assert!)
  unwrap               Option/Result::{unwrap, expect, unwrap_err, expect_err}
  index                slice/Vec/str Index(Mut)::index*, split_at*, copy_from_slice, clone_from_slice, ...
  alloc                Vec::with_capacity / vec![x; n] / resize / reserve whose size derives from a decoded integer
  loop                 iteration over a Range / RangeInclusive whose bound is not a constant (work proportional to a value)

Sites are grouped per (function, coarse kind): the group is the unit of the reviewed table and of reporting, so that a
behaviour-preserving edit inside a function (renaming a local, reordering operands) neither changes a key nor hides a new site:
the table states how many sites of that coarse kind in that function were reviewed; one more than that is a violation that
lists every undischarged site of the group.
"""
import json, os, re
from collections import Counter, defaultdict
from vplib import expr as E
from vplib.facts import path_endswith, short_ty
from vplib.intervals import SubjectAnalysis, ISet
from rules.common import FnCtx, cmp_norm

VERIF = os.path.dirname(os.path.dirname(os.path.abspath(__file__)))

PANIC_CALLEES = ("core::panicking::panic", "core::panicking::panic_fmt", "core::panicking::panic_explicit", "core::panicking::unreachable_display",
                 "core::panicking::assert_failed", "core::panicking::panic_nounwind", "std::rt::begin_panic", "core::panicking::panic_display",
                 "core::option::expect_failed", "core::result::unwrap_failed", "core::option::unwrap_failed", "core::panicking::panic_const")
UNWRAPS = ("Option::unwrap", "Option::expect", "Result::unwrap", "Result::expect", "Result::unwrap_err", "Result::expect_err")
INDEXERS = ("Index::index", "IndexMut::index_mut", "slice::split_at", "[T]::split_at", "[T]::split_at_mut", "[T]::copy_from_slice",
            "[T]::clone_from_slice", "[T]::swap", "Vec::remove", "Vec::insert", "Vec::swap_remove", "Vec::drain", "Vec::split_off",
            "VecDeque::remove", "str::split_at", "String::remove", "String::insert", "[T]::chunks", "[T]::chunks_exact", "[T]::windows",
            "Iterator::step_by", "RefCell::borrow", "RefCell::borrow_mut", "[T]::first_chunk", "char::from_digit")
ALLOCS = ("Vec::with_capacity", "String::with_capacity", "VecDeque::with_capacity", "alloc::vec::from_elem", "vec::from_elem", "Vec::resize",
          "Vec::reserve", "Vec::reserve_exact", "str::repeat", "[T]::repeat", "Vec::resize_with")

# struct fields with a numeric invariant that decode and constructors establish; each entry is validated on every run by
# check_field_invariants(): every construction site of an ADT that has such a field must establish the bound.
FIELD_UB = {"num_bits": 256}
# slice-typed fields with a minimum length established by every constructor: (type suffix, field) -> minimum length
FIELD_MINLEN = {("rtps_data_representation::ParameterList", "data"): 4}
# fields (also read through a getter of the same name) that decode keeps non-zero: field -> owning type suffix
FIELD_NONZERO = {"fragment_size": "DataFragSubmessage"}


class Site:
    __slots__ = ("body", "bb", "kind", "what", "line", "term", "fc", "path", "key", "macro", "coarse", "aux")

    def __init__(self, body, bb, kind, what, line, term, fc, macro=None, coarse=None, aux=None):
        self.body, self.bb, self.kind, self.what, self.line, self.term, self.fc = body, bb, kind, what, line, term, fc
        self.path = None
        self.key = None
        self.macro = macro
        self.coarse = coarse or kind
        self.aux = aux


def _is_iter_use(fc, local):
    """the local (a Range value) is consumed as an iterator: passed to IntoIterator / Iterator methods, or returned"""
    m = fc.mir
    if local == 0:
        return True
    alias = {local}
    for _ in range(3):
        for bb, i, s in m.stmts():
            if s.kind == "assign" and s.rv is not None and s.rv.kind in ("use",) and s.rv.ops and s.rv.ops[0].place is not None \
                    and s.rv.ops[0].place.local in alias and not s.rv.ops[0].place.proj and not s.lhs.proj:
                alias.add(s.lhs.local)
    if 0 in alias:
        return True
    for bb, t in m.calls():
        if t.callee.indirect:
            continue
        tr = t.callee.trait or ""
        if not (path_endswith(tr, "IntoIterator") or path_endswith(tr, "Iterator") or path_endswith(tr, "DoubleEndedIterator")):
            continue
        for a in t.args[:1]:
            if a.place is not None and a.place.local in alias:
                return True
    return False


def sites_of(fx, body, fcs):
    """all candidate sites of one body"""
    fc = fcs.get(body.id)
    if fc is None:
        fc = fcs[body.id] = FnCtx(body)
    m = fc.mir
    out = []
    for blk in m.blocks:
        if blk.cleanup:
            continue
        t = blk.term
        if t.kind == "assert":
            k = t.assert_kind
            if k in ("ResumedAfterReturn", "ResumedAfterPanic", "ResumedAfterDrop", "MisalignedPointerDereference", "NullPointerDereference", "InvalidEnumConstruction"):
                continue
            ops = [fc.eb.operand(o) for o in t.ops]
            out.append(Site(body, blk.idx, "assert:" + k, " , ".join(E.show(o, m)[:70] for o in ops), t.line, t, fc))
        elif t.kind == "call" and not t.callee.indirect:
            c = t.callee
            nm = c.best_name() or ""
            raw = c.name or ""
            if any(nm == p or raw == p or nm.startswith(p) for p in PANIC_CALLEES):
                mac = (t.exp or [None])[0] if t.exp else None
                # text of the panic (first string constant among the arguments / promoted format pieces)
                txt = ""
                for a in t.args:
                    e = fc.eb.operand(a)
                    for s in E.walk(e):
                        if s[0] == "str":
                            txt = s[1]
                            break
                    if txt:
                        break
                what = "%s %r" % ((mac or nm).split("::")[-1], txt[:50])
                out.append(Site(body, blk.idx, "panic", what, t.line, t, fc, mac, coarse="panic " + what))
            elif c.is_(*UNWRAPS):
                recv = fc.arg(t, 0) if t.args else ("rv", "?")
                out.append(Site(body, blk.idx, "unwrap", "%s(%s)" % (c.method(), E.show(recv, m)[:110]), t.line, t, fc, coarse="unwrap " + c.method()))
            elif c.is_(*INDEXERS) or (c.trait and path_endswith(c.trait, "Index") or c.trait and path_endswith(c.trait, "IndexMut")):
                args = [fc.arg(t, i) for i in range(len(t.args))]
                out.append(Site(body, blk.idx, "index", "%s(%s)" % (c.method(), " , ".join(E.show(a, m)[:60] for a in args)), t.line, t, fc,
                                coarse="index " + c.method()))
            elif c.is_(*ALLOCS):
                args = [fc.arg(t, i) for i in range(len(t.args))]
                out.append(Site(body, blk.idx, "alloc", "%s(%s)" % (c.method(), " , ".join(E.show(a, m)[:70] for a in args)), t.line, t, fc,
                                coarse="alloc " + c.method()))
            elif c.method() in ("div_ceil", "rem_euclid", "div_euclid", "next_multiple_of") and len(t.args) == 2 and not c.trait:
                d = fc.arg(t, 1)
                out.append(Site(body, blk.idx, "assert:DivisionByZero", "%s(%s , %s)" % (c.method(), E.show(fc.arg(t, 0), m)[:50], E.show(d, m)[:60]), t.line, t, fc,
                                aux=("divisor", d)))
            elif c.is_("RangeInclusive::new") and t.dest is not None and not t.dest.proj and _is_iter_use(fc, t.dest.local):
                a, b = fc.arg(t, 0), fc.arg(t, 1)
                out.append(Site(body, blk.idx, "loop", "%s ..= %s" % (E.show(a, m)[:60], E.show(b, m)[:60]), t.line, t, fc, coarse="loop range",
                                aux=(a, ("bin", "Add", b, ("const", 1)), t.dest.local)))
        for i, s in enumerate(blk.stmts):
            if s.kind == "assign" and s.rv is not None and s.rv.kind == "aggregate" and str(s.rv.agg.get("adt", "")).endswith("ops::Range") \
                    and not s.lhs.proj and _is_iter_use(fc, s.lhs.local):
                e = fc.rv_expr(s)
                if e[0] == "adt" and len(e[3]) == 2:
                    out.append(Site(body, blk.idx, "loop", "%s .. %s" % (E.show(e[3][0], m)[:60], E.show(e[3][1], m)[:60]), s.line, None, fc,
                                    coarse="loop range", aux=(e[3][0], e[3][1], s.lhs.local)))
    return out


def collect(fx, entries, skip_fn=None):
    seen = fx.reachable_fns(entries, stop=(skip_fn or (lambda b: False)))
    fcs = {}
    sites = []
    for bid in seen:
        b = fx.bodies[bid]
        if not b.is_fn_like():
            continue
        if skip_fn and skip_fn(b):
            continue
        for s in sites_of(fx, b, fcs):
            s.path = fx.call_path(seen, bid)
            sites.append(s)
    for s in sites:
        # closures count as part of the function that defines them (closure numbers shift when one is added or removed)
        s.key = "%s|%s" % (re.sub(r"(::\{closure#\d+\})+$", "", s.body.sname), s.coarse)
    return sites, seen


# ---------------------------------------------------------------------------------------
# facts and bounds


def dominating_facts(fc, bb):
    """comparisons known at block bb: [(op, a, b)] with op normalised for the edge that dominates bb"""
    memo = fc.__dict__.setdefault("_domfacts", {})
    if bb in memo:
        return memo[bb]
    m = fc.mir
    out = []
    for sb, ce in fc.ces.items():
        if ce.true_target is None:
            continue
        c = cmp_norm(E.strip_casts(ce.expr))
        if c is None:
            continue
        for outcome, keep, other in (("true", ce.true_target, ce.false_target), ("false", ce.false_target, ce.true_target)):
            if keep is None or other is None or keep == other:
                continue
            # bb is reachable only through (sb -> keep): removing that edge makes it unreachable
            if bb not in m.reachable(0, removed_edges=[(sb, keep)]):
                op, a, b = c
                if outcome == "false":
                    op = {"Lt": "Ge", "Ge": "Lt", "Gt": "Le", "Le": "Gt", "Eq": "Ne", "Ne": "Eq"}[op]
                out.append((op, a, b))
    # a conjunction stored in a bool first (`let ok = a >= 1 && a <= n; if ok { .. a - 1 .. }`): the bool is `false` on the
    # short-circuit paths and the last operand otherwise, so behind its true edge everything that dominates the last operand's
    # definition holds, and so does that operand
    for sb, ce in fc.ces.items():
        e = ce.expr
        if ce.true_target is None or e[0] != "local" or e[2] or m.locals[e[1]] != "bool":
            continue
        ds = m.whole_defs(e[1])
        if len(ds) < 2:
            continue
        exprs = [(d, fc._def_expr(d)) for d in ds]
        nonconst = [(d, x) for d, x in exprs if E.strip_casts(x)[0] != "const"]
        if len(nonconst) != 1 or any(E.strip_casts(x) != ("const", 0) for d, x in exprs if E.strip_casts(x)[0] == "const"):
            continue
        if bb in m.reachable(0, removed_edges=[(sb, ce.true_target)]):
            continue
        d, x = nonconst[0]
        if d[1] != bb:
            out.extend(f for f in dominating_facts(fc, d[1]) if f not in out)
        c = cmp_norm(E.strip_casts(x))
        if c is not None:
            out.append(c)
    # a bounds check that passed: index < len holds in everything its success edge dominates
    for blk in m.blocks:
        t = blk.term
        if blk.cleanup or t.kind != "assert" or t.assert_kind != "BoundsCheck" or blk.idx == bb:
            continue
        succ = [x for x in m.succ(blk.idx)]
        if len(succ) == 1 and bb not in m.reachable(0, removed_edges=[(blk.idx, succ[0])]):
            ln, idx = (fc.eb.operand(o) for o in t.ops)
            out.append(("Lt", idx, ln))
    memo[bb] = out
    return out


def len_of(e):
    """the place whose length e denotes (PtrMetadata(x) | len(x)), else None"""
    e = E.strip_casts(e)
    if e[0] == "un" and e[1] == "PtrMetadata":
        return E.strip_casts(e[2])
    if e[0] == "call" and (e[1].endswith("::len") or e[1] == "core::slice::len") and e[2]:
        return E.strip_casts(e[2][0])
    return None


def same_len(a, b):
    la, lb = len_of(a), len_of(b)
    return la is not None and lb is not None and E.same(la, lb)


WIDTH = {"u8": 8, "i8": 8, "u16": 16, "i16": 16, "u32": 32, "i32": 32, "u64": 64, "i64": 64, "usize": 64, "isize": 64, "u128": 128, "i128": 128}
NARROW = ("u8", "u16", "u32", "i8", "i16", "i32", "bool")


def operand_ty(m, o):
    """type string of an operand (constant type, local type, or the type of the last field projection)"""
    if o.const is not None:
        return o.const.get("ty")
    if o.place is None:
        return None
    pl = o.place
    if not pl.proj:
        return m.locals[pl.local]
    last = pl.proj[-1]
    if last[0] == "field":
        return last[5]
    if last[0] == "deref" and len(pl.proj) == 1:
        t = m.locals[pl.local]
        import re
        return re.sub(r"^&(?:'\w+ )?(?:mut )?", "", t)
    return None


def small_range(fc, e, depth=0):
    """(lo, hi) of an expression when it can be bounded from constants, casts of narrow values, `%`, `&`, min() — else None"""
    from vplib.patheval import TY_RANGE
    if depth > 12:
        return None
    t = e[0]
    if t == "const":
        return (e[1], e[1]) if isinstance(e[1], int) else None
    if t == "cast":
        inner = small_range(fc, e[2], depth + 1)
        r = TY_RANGE.get(e[1])
        if inner is not None and r is not None and inner[0] >= r[0] and inner[1] <= r[1]:
            return inner
        # source type of the cast: a zero/sign-extended narrow value keeps its range
        src_ty = e[4] if len(e) > 4 else None
        if src_ty is None and e[2][0] in ("param", "local") and not e[2][2]:
            src_ty = fc.mir.locals[e[2][1]]
        sr = TY_RANGE.get(src_ty) if src_ty in NARROW else None
        if sr is not None and r is not None and sr[0] >= r[0] and sr[1] <= r[1]:
            return sr
        return None
    if t in ("param", "local") and not e[2]:
        if fc.mir.locals[e[1]] in NARROW:
            return TY_RANGE.get(fc.mir.locals[e[1]])
        if t == "param" and S_FX[0] is not None:
            return param_const_range(S_FX[0], fc.body, e[1])
        return None
    if t in ("bin", "ckd"):
        op, a, b = e[1], e[2], e[3]
        ra, rb = small_range(fc, a, depth + 1), small_range(fc, b, depth + 1)
        if op == "Rem" and rb is not None and rb[0] > 0:
            return (0, rb[1] - 1)
        if op == "BitAnd" and rb is not None and rb[0] == rb[1] and rb[0] >= 0:
            return (0, rb[0])
        if op == "BitAnd" and ra is not None and ra[0] == ra[1] and ra[0] >= 0:
            return (0, ra[0])
        if op == "Div" and ra is not None and rb is not None and rb[0] > 0 and ra[0] >= 0:
            return (ra[0] // rb[1], ra[1] // rb[0])
        if ra is None or rb is None:
            return None
        if op == "Add":
            return (ra[0] + rb[0], ra[1] + rb[1])
        if op == "Sub":
            return (ra[0] - rb[1], ra[1] - rb[0])
        if op == "Mul":
            c = [ra[0] * rb[0], ra[0] * rb[1], ra[1] * rb[0], ra[1] * rb[1]]
            return (min(c), max(c))
        if op == "Shl" and rb[0] == rb[1] and 0 <= rb[0] < 64:
            return (ra[0] << rb[0], ra[1] << rb[0])   # multiplication by 2^k (also for negative values)
        if op == "Shr" and rb[0] == rb[1] and ra[0] >= 0:
            return (ra[0] >> rb[0], ra[1] >> rb[0])
        return None
    if t == "call" and e[1].endswith("::min") and not e[4]:
        rs = [small_range(fc, x, depth + 1) for x in e[2]]
        rs = [r for r in rs if r is not None]
        if rs:
            return (0, min(r[1] for r in rs)) if all(r[0] >= 0 for r in rs) else None
    return None


def ub_at(fc, bb, e, depth=0):
    """an upper bound of the non-negative expression e at block bb, or None.
    Sources: constants / narrow casts / masks (small_range), dominating comparisons against something bounded,
    iteration variables of bounded ranges, struct fields with a validated invariant (FIELD_UB)."""
    if depth > 6:
        return None
    r = small_range(fc, e)
    best = r[1] if r is not None else None
    es = E.strip_casts(e)

    def better(x):
        nonlocal best
        if x is not None and (best is None or x < best):
            best = x
    if es[0] in ("param", "local") and es[2] and es[2][-1] in FIELD_UB:
        better(FIELD_UB[es[2][-1]])
    if es[0] == "call" and es[1].endswith("Iterator::next") and es[2]:
        src = E.strip_casts(es[2][0])
        if src[0] == "adt" and src[1].endswith("ops::Range") and len(src[3]) == 2:
            hi = ub_at(fc, bb, src[3][1], depth + 1)
            if hi is not None:
                better(hi - 1)
    if es[0] == "call" and es[1].endswith("::div_ceil") and len(es[2]) == 2 and not es[4]:
        d = small_range(fc, es[2][1])
        n = ub_at(fc, bb, es[2][0], depth + 1)
        if d is not None and d[0] > 0 and n is not None:
            better(-(-n // d[0]))
    if es[0] == "bin" and es[1] == "Div":
        d = small_range(fc, es[3])
        n = ub_at(fc, bb, es[2], depth + 1)
        if d is not None and d[0] > 0 and n is not None:
            better(n // d[0])
    if es[0] == "bin" and es[1] == "Add":
        x, y = ub_at(fc, bb, es[2], depth + 1), ub_at(fc, bb, es[3], depth + 1)
        if x is not None and y is not None:
            better(x + y)
    if es[0] == "bin" and es[1] == "Sub":
        # a - b with b >= 0 is at most a (its own underflow is a separate site)
        x = ub_at(fc, bb, es[2], depth + 1)
        if x is not None:
            better(x)
    for op, a, b in dominating_facts(fc, bb):
        a0, b0 = E.strip_casts(a), E.strip_casts(b)
        for x, y, o in ((a0, b0, op), (b0, a0, {"Lt": "Gt", "Gt": "Lt", "Le": "Ge", "Ge": "Le", "Eq": "Eq", "Ne": "Ne"}[op])):
            if o in ("Lt", "Le") and x[0] == "bin" and x[1] == "Div" and E.same(E.strip_casts(x[2]), es):
                # es / k < c  =>  es < c * k
                kk, yb = small_range(fc, x[3]), small_range(fc, y)
                if kk is not None and kk[0] == kk[1] and kk[0] > 0 and yb is not None:
                    better((yb[1] if o == "Lt" else yb[1] + 1) * kk[0] - 1)
                continue
            if o not in ("Lt", "Le", "Eq") or not E.same(x, es):
                continue
            if E.same(y, es):
                continue
            yb = small_range(fc, y)
            yv = yb[1] if yb is not None else None
            if yv is None and depth < 3:
                yv = ub_at(fc, bb, y, depth + 3)
            if yv is not None:
                better(yv - 1 if o == "Lt" else yv)
    return best


_PC_MEMO = {}


def param_const_range(fx, body, pidx):
    """(min, max) when every call site of body passes an integer constant for parameter pidx"""
    key = (body.id, pidx)
    if key in _PC_MEMO:
        return _PC_MEMO[key]
    _PC_MEMO[key] = None
    vals = []
    for c in fx.callers_of(body.id):
        cf = FnCtx(c)
        for bb, t in cf.mir.calls():
            if t.callee.indirect or t.callee.res_id != body.id or pidx - 1 >= len(t.args):
                continue
            e = E.strip_casts(cf.eb.operand(t.args[pidx - 1]))
            if e[0] != "const" or not isinstance(e[1], int):
                return None
            vals.append(e[1])
    if vals:
        _PC_MEMO[key] = (min(vals), max(vals))
    return _PC_MEMO[key]


# ---------------------------------------------------------------------------------------
# discharge rules


def d_const_bounds(s):
    """D1: constant index into a constant-length array"""
    if s.kind != "assert:BoundsCheck":
        return None
    ln, idx = (s.fc.eb.operand(o) for o in s.term.ops)
    if ln[0] == "const" and idx[0] == "const" and 0 <= idx[1] < ln[1]:
        return "D1 constant index %d < constant length %d" % (idx[1], ln[1])
    return None


def d_interval_bounds(s):
    """D2: BoundsCheck(len(p), c) where dominating conditions establish len(p) > c (interval analysis on len(p))"""
    if s.kind != "assert:BoundsCheck":
        return None
    fc = s.fc
    ln, idx = (fc.eb.operand(o) for o in s.term.ops)
    lp = len_of(ln)
    if lp is None or idx[0] != "const":
        return None
    ana = SubjectAnalysis(fc.mir, lambda e: (len_of(e) is not None and E.same(len_of(e), lp)), body=fc.body, eb=fc.eb)
    st = ana.at(s.bb)
    if not st.is_empty() and st.min() is not None and st.min() > idx[1]:
        return "D2 dominating length test: len >= %d > index %d" % (st.min(), idx[1])
    return None


def d_fact_bounds(s):
    """D2b: BoundsCheck(len(p), i) with a dominating comparison i < len(p) or i + k <= len(p) (k >= 1)"""
    if s.kind != "assert:BoundsCheck":
        return None
    fc = s.fc
    ln, idx = (fc.eb.operand(o) for o in s.term.ops)
    i0 = E.strip_casts(idx)
    for op, a, b in dominating_facts(fc, s.bb):
        a0, b0 = E.strip_casts(a), E.strip_casts(b)
        for (x, y, o) in ((a0, b0, op), (b0, a0, {"Lt": "Gt", "Gt": "Lt", "Le": "Ge", "Ge": "Le", "Eq": "Eq", "Ne": "Ne"}[op])):
            # x <o> y with y a length of the same place
            if not (same_len(y, ln) or (ln[0] == "const" and y == ln)):
                continue
            if o == "Lt" and E.same(x, i0):
                return "D2b dominated by index < len"
            if o in ("Le", "Lt") and x[0] == "bin" and x[1] == "Add":
                p, q = E.strip_casts(x[2]), E.strip_casts(x[3])
                for u, v in ((p, q), (q, p)):
                    if E.same(u, i0) and v[0] == "const" and v[1] >= 1:
                        return "D2b dominated by index + %d <= len" % v[1]
    return None


def d_mod_index(s):
    """D3: index is x % N / x & (N-1) with N <= constant array length"""
    if s.kind != "assert:BoundsCheck":
        return None
    ln, idx = (s.fc.eb.operand(o) for o in s.term.ops)
    i = E.strip_casts(idx)
    if ln[0] == "const" and i[0] == "bin" and i[1] == "Rem" and i[3][0] == "const" and 0 < i[3][1] <= ln[1]:
        return "D3 index is x %% %d into array of %d" % (i[3][1], ln[1])
    if ln[0] == "const" and i[0] == "bin" and i[1] == "BitAnd" and i[3][0] == "const" and 0 <= i[3][1] < ln[1]:
        return "D3 index is x & %d into array of %d" % (i[3][1], ln[1])
    return None


def d_ub_bounds(s):
    """D11: index into a constant-length array whose upper bound (facts, bounded iteration, field invariants) is below the length"""
    if s.kind != "assert:BoundsCheck":
        return None
    fc = s.fc
    ln, idx = (fc.eb.operand(o) for o in s.term.ops)
    if ln[0] != "const":
        return None
    u = ub_at(fc, s.bb, idx)
    if u is not None and u < ln[1]:
        return "D11 index <= %d < constant length %d (dominating comparisons / bounded iteration / field invariant)" % (u, ln[1])
    return None


def d_minlen_bounds(s):
    """D2c: constant index into a slice field whose constructors all establish a minimum length (FIELD_MINLEN)"""
    if s.kind != "assert:BoundsCheck":
        return None
    fc = s.fc
    ln, idx = (fc.eb.operand(o) for o in s.term.ops)
    lp = len_of(ln)
    if lp is None or idx[0] != "const" or lp[0] != "param" or len(lp[2]) != 1:
        return None
    ty = fc.mir.locals[lp[1]]
    for (tsuf, fld), mn in FIELD_MINLEN.items():
        if fld == lp[2][0] and tsuf in ty and 0 <= idx[1] < mn:
            return "D2c %s.%s has at least %d elements (established by every constructor)" % (tsuf.split("::")[-1], fld, mn)
    return None


def d_arith_range(s):
    """D10: checked arithmetic whose result range (from constants, narrow casts, %, &, /, dominating comparisons) fits the operand type"""
    from vplib.patheval import TY_RANGE
    if not s.kind.startswith("assert:Overflow("):
        return None
    op = s.kind[16:-1]
    fc = s.fc
    m = fc.mir
    a, b = s.term.ops
    ty = None
    for o in (a, b):
        ty = ty or operand_ty(m, o)
    ea, eb = fc.eb.operand(a), fc.eb.operand(b)
    if op in ("Shl", "Shr"):
        # the shifted value's type decides the width; it is the first operand's type
        ty_a = operand_ty(m, a) or ty
        rb = small_range(fc, eb)
        ub = ub_at(fc, s.bb, eb)
        w = WIDTH.get(ty_a)
        if w is None:
            # untyped constant on the left (e.g. `1 << x`): the narrowest plausible width is that of the result local
            w = 16
        if rb is not None and 0 <= rb[0] and rb[1] < w:
            return "D10 shift amount in [%d, %d] < width %d" % (rb[0], rb[1], w)
        tb = operand_ty(m, b)
        if ub is not None and ub < w and tb in ("u8", "u16", "u32", "u64", "usize"):
            return "D10 unsigned shift amount <= %d < width %d" % (ub, w)
        return None
    if ty not in TY_RANGE:
        return None
    lo, hi = TY_RANGE[ty]
    ra, rb = small_range(fc, ea), small_range(fc, eb)
    if ra is not None and rb is not None:
        res = small_range(fc, ("bin", op, ea, eb))
        if res is not None and res[0] >= lo and res[1] <= hi:
            return "D10 result range [%d, %d] fits %s" % (res[0], res[1], ty)
    if lo == 0 and op in ("Add", "Mul"):
        ua, ub = ub_at(fc, s.bb, ea), ub_at(fc, s.bb, eb)
        if ua is not None and ub is not None:
            r = ua + ub if op == "Add" else ua * ub
            if r <= hi:
                return "D10 unsigned %s of values <= %d and <= %d fits %s" % (op, ua, ub, ty)
    return None


def d_sub_guarded(s):
    """D16: a - c (constant c >= 0) dominated by a comparison that puts a at least c above its type's minimum:
    a >= k (k >= c), a > k (k >= c - 1), or for c == 1 any strict `y < a`"""
    if s.kind != "assert:Overflow(Sub)":
        return None
    fc = s.fc
    a, b = (fc.eb.operand(o) for o in s.term.ops)
    a0, b0 = E.strip_casts(a), E.strip_casts(b)
    if b0[0] != "const" or not isinstance(b0[1], int) or b0[1] < 0:
        return None
    c = b0[1]
    for op, x, y in dominating_facts(fc, s.bb):
        x0, y0 = E.strip_casts(x), E.strip_casts(y)
        for (p, q, o) in ((x0, y0, op), (y0, x0, {"Lt": "Gt", "Gt": "Lt", "Le": "Ge", "Ge": "Le", "Eq": "Eq", "Ne": "Ne"}[op])):
            if not E.same(p, a0):
                continue
            if q[0] == "const" and isinstance(q[1], int) and ((o == "Ge" and q[1] >= c) or (o == "Gt" and q[1] >= c - 1) or (o == "Eq" and q[1] >= c)):
                return "D16 dominated by a comparison that keeps the minuend >= %d" % c
            if o == "Gt" and c == 1:
                return "D16 dominated by `y < a`: a is above its type's minimum, a - 1 cannot underflow"
    return None


def d_div_const(s):
    """division / remainder by a non-zero constant; shifts by a constant smaller than the width"""
    if s.kind in ("assert:DivisionByZero", "assert:RemainderByZero"):
        # the assert condition is `divisor == 0` (expected false); the message operand is the dividend
        if s.aux is not None and s.aux[0] == "divisor":
            c = ("bin", "Eq", s.aux[1], ("const", 0))
        else:
            c = E.strip_casts(s.fc.eb.operand(s.term.cond))
        for x in (c[2], c[3]) if c[0] == "bin" else ():
            xs = E.strip_casts(x)
            fld = xs[2][-1] if xs[0] in ("param", "local") and xs[2] else (xs[1].split("::")[-1] if xs[0] == "call" and not xs[4] else None)
            if fld in FIELD_NONZERO:
                return "D8 divisor is %s, which every constructor keeps non-zero (field invariant)" % fld
        if c[0] == "bin" and c[1] == "Eq":
            for x, y in ((c[2], c[3]), (c[3], c[2])):
                xs = E.strip_casts(x)
                if y == ("const", 0) and xs[0] == "const" and xs[1] != 0:
                    return "D8 divisor is the non-zero constant %d" % xs[1]
                if y == ("const", 0):
                    r = small_range(s.fc, xs)
                    if r is not None and (r[0] > 0 or r[1] < 0):
                        return "D8 divisor range [%d, %d] excludes zero" % r
        if c[0] == "const" and c[1] == 0:
            return "D8 divisor is a non-zero constant (condition folded)"
    if s.kind in ("assert:Overflow(Shl)", "assert:Overflow(Shr)"):
        sh = E.strip_casts(s.fc.eb.operand(s.term.ops[1]))
        if sh[0] == "const" and 0 <= sh[1] < 32:
            return "D8 shift by the constant %d" % sh[1]
    if s.kind in ("assert:Overflow(Div)", "assert:Overflow(Rem)"):
        d = E.strip_casts(s.fc.eb.operand(s.term.ops[1]))
        if d[0] == "const" and d[1] not in (0, -1):
            return "D8 signed division by the constant %d cannot overflow" % d[1]
    return None


POSITION_FIELDS = ("pos", "position")   # Reader::pos, CdrDeserializer::pos, PidIterator::position: cursors, always <= buffer length
S_FX = [None]
_PS_MEMO = {}


def _small_expr(fc, s, e, depth=0):
    """value below 2^33: constant, length, narrow cast, cursor field, small parameter, or a sum / mask of such"""
    es = E.strip_casts(e)
    if depth > 6:
        return False
    if es[0] == "const":
        return isinstance(es[1], int) and 0 <= es[1] < (1 << 32)
    if es[0] == "un" and es[1] == "Not":
        return True   # mask
    if es[0] == "rv" and es[1] == "const usize":
        return True   # const generic array length: an array of that length exists, so it is below isize::MAX
    if len_of(es) is not None:
        return True
    if es[0] in ("param", "local") and es[2] and es[2][-1] in POSITION_FIELDS:
        return True
    r = small_range(fc, e)
    if r is not None and 0 <= r[0] and r[1] < (1 << 33):
        return True
    if es[0] == "param" and not es[2] and S_FX[0] is not None:
        return param_small(S_FX[0], s.body, es[1])
    if es[0] == "bin" and es[1] in ("Add", "BitAnd", "Sub"):
        return _small_expr(fc, s, es[2], depth + 1) and _small_expr(fc, s, es[3], depth + 1)
    if es[0] == "call" and (es[1].endswith("::saturating_sub") or es[1].endswith("::min")) and es[2]:
        return _small_expr(fc, s, es[2][0], depth + 1)
    return False


def param_small(fx, body, pidx, depth=0):
    """every call site of `body` passes a value < 2^33 for parameter `pidx` (1-based MIR local)"""
    key = (body.id, pidx)
    if key in _PS_MEMO:
        return _PS_MEMO[key]
    _PS_MEMO[key] = False
    if depth > 3:
        return False
    callers = fx.callers_of(body.id)
    if not callers:
        return False
    ok = True
    n = 0
    for c in callers:
        cf = FnCtx(c)
        for bb, t in cf.mir.calls():
            if t.callee.indirect or t.callee.res_id != body.id or pidx - 1 >= len(t.args):
                continue
            n += 1
            e = cf.eb.operand(t.args[pidx - 1])
            fake = Site(c, bb, "x", "", t.line, t, cf)
            if not _small_expr(cf, fake, e):
                ok = False
    ok = ok and n > 0
    _PS_MEMO[key] = ok
    return ok


def d_usize_len_arith(s):
    """D5: Overflow(Add|Mul) on usize whose operands are buffer lengths / positions / small constants /
    zero-extended <= 32-bit values (cannot exceed 2^64 on the analysed 64-bit target). Never applied to Sub."""
    if s.kind not in ("assert:Overflow(Add)", "assert:Overflow(Mul)"):
        return None
    fc = s.fc
    m = fc.mir
    a, b = s.term.ops
    ty = None
    for o in (a, b):
        ty = ty or operand_ty(m, o)
    if ty not in ("usize", "u64"):
        return None

    def small(o):
        e = fc.eb.operand(o)
        es = E.strip_casts(e)
        if es[0] == "call" and (es[1].endswith("::len") or es[1].endswith("::position") or es[1].endswith("::count") or es[1].endswith("::capacity")):
            return True
        return _small_expr(fc, s, e)
    if s.kind.endswith("(Mul)"):
        # a product needs both factors below 2^32
        ra, rb = small_range(fc, fc.eb.operand(a)), small_range(fc, fc.eb.operand(b))
        if ra is not None and rb is not None and 0 <= ra[0] and 0 <= rb[0] and ra[1] * rb[1] < (1 << 64):
            return "D5 usize product of bounded factors"
        return None
    if small(a) and small(b):
        return "D5 usize %s of buffer lengths / positions / zero-extended 32-bit values" % s.kind[16:-1]
    return None


def d_unwrap_after_check(s):
    """D6: unwrap/expect of x dominated by the Some/Ok edge of a test of the same x"""
    if s.kind != "unwrap":
        return None
    fc = s.fc
    recv = E.strip_casts(fc.arg(s.term, 0)) if s.term.args else None
    if recv is None:
        return None
    m = fc.mir
    for sb, ce in fc.ces.items():
        e = E.strip_casts(ce.expr)
        ok_edge = None
        if E.is_call(e, "Option::is_some", "Result::is_ok") and e[2] and E.same(E.strip_casts(e[2][0]), recv):
            ok_edge = ce.true_target
        elif E.is_call(e, "Option::is_none", "Result::is_err") and e[2] and E.same(E.strip_casts(e[2][0]), recv):
            ok_edge = ce.false_target
        elif e[0] == "discr" and E.same(E.strip_casts(e[1]), recv):
            ok_edge = ce.target_for(1 if s.term.callee.is_("Option::unwrap", "Option::expect") else 0)
        if ok_edge is not None and s.bb not in m.reachable(0, removed_edges=[(sb, ok_edge)]):
            return "D6 dominated by a successful test of the same value"
    return None


def d_derive_union(s):
    """D15: expect() emitted by #[derive(DdsType)] in a union's create_sample: the member id and storage type it expects are
    emitted from the same variant list as the type description the deserializer was driven by"""
    if s.kind != "unwrap" or s.body.item_name != "create_sample":
        return None
    exp = s.term.exp or []
    if any(str(x).startswith("dust_dds_derive::") for x in exp):
        return "D15 generated by the derive macro from the variant list that also defines the member ids and types"
    return None


def never_err(fx, body, memo, depth=0):
    """callee never produces Err / None by construction: no Err/None aggregate, no `?` on something fallible"""
    if body.id in memo:
        return memo[body.id]
    memo[body.id] = True   # optimistic for recursion
    if body.builds("Result", "Err") or body.builds("Option", "None"):
        memo[body.id] = False
        return False
    if depth > 4:
        memo[body.id] = False
        return False
    for cid in body.sum_edges:
        c = fx.bodies.get(cid)
        if c is None:
            continue
        co = c.output or ""
        if (co.startswith("std::result::Result") or co.startswith("std::option::Option")) and not never_err(fx, c, memo, depth + 1):
            memo[body.id] = False
            return False
    # external fallible callees
    for n in body.sum_calls:
        if any(n.endswith(x) for x in ("::try_into", "::try_from", "::parse", "Write::write_all", "::from_utf8", "::checked_add", "::checked_sub", "::get", "::first", "::last", "::find", "::position")):
            memo[body.id] = False
            return False
    return True


def d_never_err(fx, memo):
    def rule(s):
        if s.kind != "unwrap":
            return None
        recv = E.strip_casts(s.fc.arg(s.term, 0)) if s.term.args else None
        if recv is None or recv[0] != "call" or recv[4]:
            return None
        t = s.fc.eb.terms.get(recv[3])
        if t is None or t.callee.indirect:
            return None
        cands = []
        if t.callee.res_id in fx.bodies and t.callee.res_kind == "item":
            cands = [fx.bodies[t.callee.res_id]]
        elif t.callee.def_id in fx.trait_impls:
            cands = [fx.bodies[i] for i in fx.trait_impls[t.callee.def_id] if i in fx.bodies]
        if cands and all(never_err(fx, c, memo) for c in cands):
            return "D4 every callee candidate (%d) never constructs Err/None" % len(cands)
        return None
    return rule


def range_ok(fc, bb, base, r):
    """D7 core: p[a..b] / p[a..] / p[..b] is in bounds at block bb, from dominating comparisons"""
    facts = dominating_facts(fc, bb)

    def le(x, y):
        """x <= y is known"""
        xs, ys = E.strip_casts(x), E.strip_casts(y)
        if E.same(xs, ys):
            return True
        if xs[0] == "const" and xs[1] == 0:
            return True
        if xs[0] == "const" and ys[0] == "const":
            return xs[1] <= ys[1]
        for op, a, b in facts:
            a0, b0 = E.strip_casts(a), E.strip_casts(b)
            if op in ("Le", "Lt", "Eq") and E.same(a0, xs) and E.same(b0, ys):
                return True
            if op in ("Ge", "Gt", "Eq") and E.same(a0, ys) and E.same(b0, xs):
                return True
        # y is min(.., len) style or x is produced by min(y, ..)
        if xs[0] == "call" and xs[1].endswith("::min") and any(E.same(E.strip_casts(z), ys) for z in xs[2]):
            return True
        # x <= x + y for unsigned values (the addition's own overflow is a separate site)
        if ys[0] == "bin" and ys[1] == "Add" and (E.same(E.strip_casts(ys[2]), xs) or E.same(E.strip_casts(ys[3]), xs)):
            return True
        if ys[0] == "bin" and ys[1] == "Add" and xs[0] == "bin" and xs[1] == "Add":
            # (p + c1) <= (p + y + c1)  — common `pos + 4 .. pos + length + 4` shape
            xa, xb = E.strip_casts(xs[2]), E.strip_casts(xs[3])
            ya, yb = E.strip_casts(ys[2]), E.strip_casts(ys[3])
            if E.same(xb, yb) and ya[0] == "bin" and ya[1] == "Add" and (E.same(E.strip_casts(ya[2]), xa) or E.same(E.strip_casts(ya[3]), xa)):
                return True
        return False

    def le_len(x, depth=0):
        xs = E.strip_casts(x)
        lp = len_of(xs)
        if lp is not None and E.same(lp, base):
            return True
        for op, a, b in facts:
            a0, b0 = E.strip_casts(a), E.strip_casts(b)
            if op in ("Le", "Lt", "Eq") and E.same(a0, xs) and len_of(b0) is not None and E.same(len_of(b0), base):
                return True
            if op in ("Ge", "Gt", "Eq") and E.same(b0, xs) and len_of(a0) is not None and E.same(len_of(a0), base):
                return True
            # len(base) >= const  and x const
            if xs[0] == "const" and len_of(a0) is not None and E.same(len_of(a0), base) and b0[0] == "const" and \
                    ((op == "Ge" and xs[1] <= b0[1]) or (op == "Gt" and xs[1] <= b0[1] + 1) or (op == "Eq" and xs[1] <= b0[1])):
                return True
        if xs[0] == "call" and xs[1].endswith("::min") and any(len_of(E.strip_casts(z)) is not None and E.same(len_of(E.strip_casts(z)), base) for z in xs[2]):
            return True
        # multi-definition local: every definition is bounded
        if xs[0] == "local" and not xs[2] and depth < 2:
            ds = fc.mir.whole_defs(xs[1])
            if ds and all(le_len(fc._def_expr(d), depth + 1) for d in ds):
                return True
        return False
    if r[0] == "split":
        return "D7 split point bounded by the slice length" if le_len(r[1]) else None
    if r[0] == "adt" and r[1].endswith("ops::Range") and len(r[3]) == 2:
        a, b = r[3]
        if le(a, b) and le_len(b):
            return "D7 range start <= end <= len established by dominating comparisons"
    if r[0] == "adt" and r[1].endswith("ops::RangeFrom") and len(r[3]) == 1:
        if le_len(r[3][0]):
            return "D7 range start <= len established by dominating comparisons"
    if r[0] == "adt" and r[1].endswith("ops::RangeTo") and len(r[3]) == 1:
        if le_len(r[3][0]):
            return "D7 range end <= len established by dominating comparisons"
    if r[0] == "adt" and r[1].endswith("ops::RangeFull"):
        return "D7 full range"
    return None


def d_range_index(s):
    """D7: p[a..b] / p[a..] / p[..b] / split_at(p, k) discharged when dominating comparisons give a <= b and b <= len(p).
    When the index and the slice are both parameters of a small helper (BufRead::consume), the obligation is checked at
    every call site instead (precondition lifted to the callers)."""
    if s.kind != "index":
        return None
    fc = s.fc
    t = s.term
    meth = t.callee.method()
    if meth in ("drain",) and len(t.args) >= 2:
        r = E.strip_casts(fc.arg(t, 1))
        if r[0] == "adt" and r[1].endswith("ops::RangeFull"):
            return "D7 full range"
        return None
    if meth not in ("index", "index_mut", "split_at", "split_at_mut") or len(t.args) < 2:
        return None
    base = E.strip_casts(fc.arg(t, 0))
    r = E.strip_casts(fc.arg(t, 1))
    if meth.startswith("split_at"):
        r = ("split", r)
    why = range_ok(fc, s.bb, base, r)
    if why:
        return why
    # constant-length array indexed by ..x with a bounded x
    import re
    aty = operand_ty(fc.mir, t.args[0]) or ""
    ma = re.search(r"\[[^\[\];]+; (\d+)\]$", aty)
    if ma and r[0] == "adt" and r[1].endswith("ops::RangeTo") and len(r[3]) == 1:
        u = ub_at(fc, s.bb, r[3][0])
        if u is not None and u <= int(ma.group(1)):
            return "D7 range end <= %d <= array length %s (bounded value / field invariant)" % (u, ma.group(1))
    if ma and r[0] == "adt" and r[1].endswith("ops::Range") and len(r[3]) == 2:
        a, b = E.strip_casts(r[3][0]), E.strip_casts(r[3][1])
        if a[0] == "const" and b[0] == "const" and 0 <= a[1] <= b[1] <= int(ma.group(1)):
            return "D7 constant range %d..%d inside an array of %s" % (a[1], b[1], ma.group(1))
    # precondition lifted to callers: base is (a deref of) parameter 1 and the bound is parameter 2
    if S_FX[0] is not None and r[0] == "adt" and r[1].endswith("ops::RangeFrom") and len(r[3]) == 1:
        amt = E.strip_casts(r[3][0])
        if base[0] == "param" and amt[0] == "param" and not amt[2]:
            fx = S_FX[0]
            n = 0
            cands = {s.body.id}
            for c in fx.bodies.values():
                if not c.is_fn_like() or not c.sum_calls or not any(x.endswith("::" + (s.body.item_name or "?")) for x in c.sum_calls):
                    continue
                cf = FnCtx(c)
                for bb, ct in cf.mir.calls():
                    if ct.callee.indirect or not (ct.callee.res_id in cands or (ct.callee.method() == s.body.item_name and ct.callee.trait and s.body.impl_trait
                                                                              and path_endswith(ct.callee.trait, s.body.impl_trait.split("::")[-1]))):
                        continue
                    if len(ct.args) < 2:
                        return None
                    n += 1
                    cbase = E.strip_casts(cf.arg(ct, 0))
                    cr = ("adt", "std::ops::RangeFrom", "RangeFrom", (cf.arg(ct, 1),), ())
                    if not range_ok(cf, bb, cbase, cr):
                        return None
            if n > 0:
                return "D7 precondition amt <= len established at all %d call sites" % n
    return None


MAX_CONST_CAP = 1024   # elements; a constant clamp above this is not taken as a bound on memory


def returns_min(body):
    """the function returns core::cmp::min(..) / Ord::min(..) of its inputs"""
    m = body.mir
    for bb, t in m.calls():
        if not t.callee.indirect and (t.callee.best_name() or "").endswith("::min") and t.dest is not None and t.dest.local == 0 and not t.dest.proj:
            return True
    return False


def d_alloc_untainted(s):
    """allocations whose size is a constant, a length of in-memory data, or clamped by min() are not wire-sized"""
    if s.kind != "alloc":
        return None
    fc = s.fc
    t = s.term
    size = None
    meth = t.callee.method()
    if meth in ("with_capacity",):
        size = fc.arg(t, 0)
    elif meth in ("from_elem",):
        size = fc.arg(t, 1)
    elif meth in ("resize", "resize_with", "reserve", "reserve_exact", "repeat"):
        size = fc.arg(t, 1)
    if size is None:
        return None
    e = E.strip_casts(size)
    if e[0] == "const":
        return "D9 constant size %s" % e[1]
    if len_of(e) is not None or (e[0] == "call" and (e[1].endswith("::len") or e[1].endswith("::count") or e[1].endswith("size_hint"))):
        return "D9 size is the length of data already in memory"
    if e[0] == "call" and e[1].endswith("::min") and len(e[2]) == 2:
        # the clamp must come from the input actually held (a length of in-memory data), or be a small constant: a large constant
        # cap (`n.min(u16::MAX)`) still lets a few received bytes reserve megabytes
        for x in e[2]:
            x0 = E.strip_casts(x)
            if len_of(x0) is not None or (x0[0] == "call" and (x0[1].endswith("::len") or x0[1].endswith("::count"))):
                return "D9 size is clamped by min() with the length of data already in memory"
            if x0[0] == "bin" and any(len_of(E.strip_casts(y)) is not None or (E.strip_casts(y)[0] == "call" and E.strip_casts(y)[1].endswith("::len")) for y in (x0[2], x0[3])):
                return "D9 size is clamped by min() with a bound computed from in-memory lengths"
            if x0[0] == "call" and x0[1].split("::")[-1] in ("saturating_sub", "checked_sub", "wrapping_sub") and any(
                    len_of(E.strip_casts(y)) is not None or (E.strip_casts(y)[0] == "call" and E.strip_casts(y)[1].endswith("::len")) for y in x0[2]):
                return "D9 size is clamped by min() with the bytes left"
            if x0[0] == "const" and isinstance(x0[1], int) and 0 <= x0[1] <= MAX_CONST_CAP:
                return "D9 size is clamped by min() with the small constant %d" % x0[1]
    if e[0] == "call" and not e[4] and S_FX[0] is not None:
        ct = fc.eb.terms.get(e[3])
        if ct is not None and not ct.callee.indirect and ct.callee.res_id in S_FX[0].bodies and returns_min(S_FX[0].bodies[ct.callee.res_id]):
            return "D9 size comes from %s, which returns min(requested, bytes left)" % ct.callee.method()
    if e[0] == "bin" and all(E.strip_casts(x)[0] == "const" or len_of(E.strip_casts(x)) is not None or (E.strip_casts(x)[0] == "call" and E.strip_casts(x)[1].endswith("::len")) or _small_expr(fc, s, x) for x in (e[2], e[3])):
        return "D9 size computed from in-memory lengths"
    return None


def d_unreachable_arm(s):
    """D12: a panic that is only reachable through the `otherwise` edge of a switch on x whose explicit arms cover 0..=ub(x)"""
    if s.kind != "panic":
        return None
    fc = s.fc
    m = fc.mir
    for sb, ce in fc.ces.items():
        if ce.true_target is not None or not ce.arms or ce.otherwise is None or ce.is_discr():
            continue
        if s.bb in m.reachable(0, removed_edges=[(sb, ce.otherwise)]):
            continue
        u = ub_at(fc, sb, ce.expr)
        vals = {a for a, _ in ce.arms}
        if u is not None and all(v in vals for v in range(0, u + 1)):
            return "D12 only reachable through the default arm of a switch whose explicit arms cover 0..=%d" % u
    return None


def d_type_kind_arm(s):
    """D14: a panic in an arm of `match <DynamicType>.get_kind()`: the arm is selected by the local type description
    (a type kind the implementation does not support), not by received bytes"""
    if s.kind != "panic":
        return None
    fc = s.fc
    m = fc.mir
    for sb, ce in fc.ces.items():
        if not ce.is_discr() or not E.is_call(E.strip_casts(ce.expr[1]), "DynamicType::get_kind"):
            continue
        for tgt in {t for _, t in ce.arms} | ({ce.otherwise} if ce.otherwise is not None else set()):
            cur = tgt
            for _ in range(6):
                if cur == s.bb:
                    return "D14 arm of a match on the local type's kind (unsupported kinds are outside the decoders' input domain)"
                su = [x for x in m.succ(cur)]
                if len(su) != 1:
                    break
                cur = su[0]
    return None


LOCAL_COUNT_CALLS = ("::get_member_count", "::get_item_count", "::len", "::count")


def d_loop(s):
    """loops over a range: bounded by a constant / in-memory length / local type description, or every iteration performs a
    fallible decode (leaves the loop with `?` when the input is exhausted), or the range is cut by take(const)"""
    if s.kind != "loop":
        return None
    fc = s.fc
    m = fc.mir
    lo, hi, local = s.aux
    h = E.strip_casts(hi)
    u = ub_at(fc, s.bb, h)
    if u is not None and u <= (1 << 17):
        return "DL1 at most %d iterations" % u
    if len_of(h) is not None or (h[0] == "call" and any(h[1].endswith(x) for x in LOCAL_COUNT_CALLS)):
        return "DL1 bounded by the size of data already in memory / of the local type description"
    if h[0] == "bin" and h[1] == "Add" and h[3] == ("const", 1):
        h2 = E.strip_casts(h[2])
        if len_of(h2) is not None or (h2[0] == "call" and any(h2[1].endswith(x) for x in LOCAL_COUNT_CALLS)):
            return "DL1 bounded by the size of data already in memory"
    # DL3: the range value is passed straight into take(const) / take_while
    alias = {local}
    for _ in range(3):
        for bb, i, st in m.stmts():
            if st.kind == "assign" and st.rv is not None and st.rv.kind == "use" and st.rv.ops and st.rv.ops[0].place is not None \
                    and st.rv.ops[0].place.local in alias and not st.rv.ops[0].place.proj and not st.lhs.proj:
                alias.add(st.lhs.local)
        for bb, t in m.calls():
            if not t.callee.indirect and t.args and t.args[0].place is not None and t.args[0].place.local in alias and not t.args[0].place.proj \
                    and t.dest is not None and not t.dest.proj and t.callee.method() in ("into_iter", "filter", "map", "peekable", "by_ref"):
                alias.add(t.dest.local)
    for bb, t in m.calls():
        if t.callee.indirect or not t.args or t.args[0].place is None or t.args[0].place.local not in alias:
            continue
        if t.callee.method() == "take" and len(t.args) > 1:
            n = E.strip_casts(fc.arg(t, 1))
            if n[0] == "const" and n[1] <= (1 << 16):
                return "DL3 range consumed through take(%d)" % n[1]
    # DL2: the loop that pulls from this range leaves through a `?`
    loops = m.natural_loops()
    for bb, t in m.calls():
        if t.callee.indirect or t.callee.method() != "next" or not t.args or t.args[0].place is None:
            continue
        a0 = E.strip_casts(fc.arg(t, 0))
        if not any(x[0] == "adt" and x[1].endswith("ops::Range") and E.same(E.strip_casts(x[3][1]), h) for x in E.walk(a0) if x[0] == "adt" and len(x[3]) == 2):
            continue
        for hdr, blocks in loops.items():
            if bb not in blocks:
                continue
            for sb, ce in fc.ces.items():
                if sb in blocks and ce.is_discr() and E.is_call(E.strip_casts(ce.expr[1]), "Try::branch"):
                    tgt = ce.target_for(1)
                    if tgt is not None and tgt not in blocks:
                        return "DL2 every iteration performs a fallible decode and leaves the loop with `?` when it fails"
    return None


def d_returned_range(fx):
    def rule(s):
        """DL4: a range returned as an iterator: every caller consumes it through take(const), count() or is_empty-like O(1) calls"""
        if s.kind != "loop" or s.aux[2] != 0 and not _returns_local(s.fc, s.aux[2]):
            return None
        n = 0
        for c in fx.callers_of(s.body.id):
            cf = FnCtx(c)
            m = cf.mir
            for bb, t in m.calls():
                if t.callee.indirect or t.callee.res_id != s.body.id or t.dest is None:
                    continue
                n += 1
                d = t.dest.local
                ok = False
                for bb2, t2 in m.calls():
                    if t2.callee.indirect or not t2.args or t2.args[0].place is None or t2.args[0].place.local != d:
                        continue
                    if t2.callee.method() == "count":
                        ok = True
                    elif t2.callee.method() == "take" and len(t2.args) > 1:
                        k = E.strip_casts(cf.arg(t2, 1))
                        ok = k[0] == "const" and k[1] <= (1 << 16)
                    else:
                        ok = False
                        break
                if not ok:
                    return None
        if n:
            return "DL4 returned range: all %d call sites consume it through take(const) or count()" % n
        return None
    return rule


def _returns_local(fc, local):
    m = fc.mir
    alias = {local}
    for _ in range(3):
        for bb, i, st in m.stmts():
            if st.kind == "assign" and st.rv is not None and st.rv.kind == "use" and st.rv.ops and st.rv.ops[0].place is not None \
                    and st.rv.ops[0].place.local in alias and not st.rv.ops[0].place.proj and not st.lhs.proj:
                alias.add(st.lhs.local)
    return 0 in alias


# ---------------------------------------------------------------------------------------
# struct field invariants used by ub_at


def check_field_invariants(fx, rep, rule):
    """FIELD_UB: every construction of an ADT owning such a field establishes field <= bound.
    Accepted shapes: (a) the aggregate is dominated by the false edge of `value > bound` (decode path);
    (b) the value is `delta + 1` where the same function indexes a constant-length array with delta / k, k * len <= bound
    (constructor whose own bounds check enforces the invariant)."""
    n = 0
    owners = set()
    for a in fx.adts.values():
        for v in a["variants"]:
            if any(f[0] in FIELD_UB for f in v["fields"]):
                owners.add(a["name"] + "::" + v["name"])
    for b in fx.bodies.values():
        if not b.is_fn_like() or not b.sum_aggs or "::tests::" in b.sname:
            continue
        if not any(a in owners for a in b.sum_aggs):
            continue
        fc = FnCtx(b)
        for bb, i, s in fc.mir.stmts():
            if s.kind != "assign" or s.rv is None or s.rv.kind != "aggregate":
                continue
            flds = s.rv.agg.get("fields") or []
            for fname, bound in FIELD_UB.items():
                if fname not in flds:
                    continue
                n += 1
                e = fc.rv_expr(s)
                v = E.strip_casts(e[3][flds.index(fname)])
                ok = False
                why = ""
                u = ub_at(fc, bb, v)
                if u is not None and u <= bound:
                    ok, why = True, "value <= %d at the construction (dominating comparison)" % u
                else:
                    # constructor shape: some BoundsCheck(const N, x / k) in the function with N * k <= bound, and the value is max-accumulated x + 1
                    for blk in fc.mir.blocks:
                        t = blk.term
                        if t.kind == "assert" and t.assert_kind == "BoundsCheck":
                            ln, idx = (fc.eb.operand(o) for o in t.ops)
                            ix = E.strip_casts(idx)
                            if ln[0] == "const" and ix[0] == "bin" and ix[1] == "Div" and ix[3][0] == "const" and ln[1] * ix[3][1] <= bound:
                                ds = fc.mir.whole_defs(v[1]) if v[0] == "local" and not v[2] else []
                                exprs = [E.strip_casts(fc._def_expr(d)) for d in ds]
                                if exprs and all(x == ("const", 0) or (x[0] in ("bin", "ckd") and x[1] == "Add" and E.same(E.strip_casts(x[2]), E.strip_casts(ix[2])) and x[3] == ("const", 1)) for x in exprs):
                                    ok, why = True, "value is max(delta + 1) and the same function indexes a %d-element array with delta / %d first" % (ln[1], ix[3][1])
                rep.add(rule, b.sname, "%s::%s <= %d established at construction" % (short_ty(s.rv.agg.get("adt", "?")), fname, bound), ok,
                        why or "a %s is built with %s not shown to be <= %d: iterators and encoders index an 8-word bitmap with it" % (short_ty(s.rv.agg.get("adt", "?")), fname, bound),
                        b.loc(s.line))
    for (tsuf, fld), mn in FIELD_MINLEN.items():
        for b in fx.bodies.values():
            if not b.is_fn_like() or not b.sum_aggs or not any(tsuf in a for a in b.sum_aggs):
                continue
            if "::tests::" in b.sname:
                continue
            fc = FnCtx(b)
            for bb, i, s in fc.mir.stmts():
                if s.kind != "assign" or s.rv is None or s.rv.kind != "aggregate" or tsuf not in str(s.rv.agg.get("adt", "")):
                    continue
                flds = s.rv.agg.get("fields") or []
                if fld not in flds:
                    continue
                n += 1
                v = E.strip_casts(fc.rv_expr(s)[3][flds.index(fld)])
                ok = False
                for op, x, y in dominating_facts(fc, bb):
                    x0, y0 = E.strip_casts(x), E.strip_casts(y)
                    if len_of(x0) is not None and E.same(len_of(x0), v) and y0[0] == "const" and ((op == "Ge" and y0[1] >= mn) or (op == "Gt" and y0[1] >= mn - 1)):
                        ok = True
                    if len_of(y0) is not None and E.same(len_of(y0), v) and x0[0] == "const" and ((op == "Le" and x0[1] >= mn) or (op == "Lt" and x0[1] >= mn - 1)):
                        ok = True
                rep.add(rule, b.sname, "%s.%s has at least %d elements at construction" % (tsuf.split("::")[-1], fld, mn), ok,
                        "" if ok else "the constructor no longer checks the length: ParameterList::endianness and the get_* accessors index data[0] / data[1] unconditionally",
                        b.loc(s.line))
    for fld, tsuf in FIELD_NONZERO.items():
        for b in fx.bodies.values():
            if not b.is_fn_like() or not b.sum_aggs or "::tests::" in b.sname or not any(a.rsplit("::", 1)[0].endswith(tsuf) for a in b.sum_aggs):
                continue
            fc = FnCtx(b)
            for bb, i, s in fc.mir.stmts():
                if s.kind != "assign" or s.rv is None or s.rv.kind != "aggregate" or not str(s.rv.agg.get("adt", "")).endswith(tsuf):
                    continue
                flds = s.rv.agg.get("fields") or []
                if fld not in flds:
                    continue
                n += 1
                v = E.strip_casts(fc.rv_expr(s)[3][flds.index(fld)])
                ok, why = False, ""
                for op, x, y in dominating_facts(fc, bb):
                    x0, y0 = E.strip_casts(x), E.strip_casts(y)
                    for p, q, o in ((x0, y0, op), (y0, x0, {"Lt": "Gt", "Gt": "Lt", "Le": "Ge", "Ge": "Le", "Eq": "Eq", "Ne": "Ne"}[op])):
                        if E.same(p, v) and q[0] == "const" and ((o == "Ne" and q[1] == 0) or (o == "Gt" and q[1] >= 0) or (o == "Ge" and q[1] >= 1)):
                            ok, why = True, "construction dominated by %s != 0" % fld
                src = v[2][0] if E.is_call(v, "Clone::clone") and v[2] else v
                src = E.strip_casts(src)
                if not ok and src[0] in ("param", "local") and src[2] and src[2][-1] == fld:
                    ok, why = True, "copied from the same field of an existing value"
                if not ok and v[0] == "param" and not v[2]:
                    # plain constructor: only the sending side may call it (its value is the writer's configured fragment size)
                    callers = [c.sname for c in fx.callers_of(b.id) if "::tests::" not in c.sname and "::tests" not in c.sname]
                    ok = all(c.endswith("as_data_frag_submessage") for c in callers)
                    why = "plain constructor, called only by the sending side: %s" % ", ".join(x.split("::")[-1] for x in callers)
                rep.add(rule, b.sname, "%s.%s is non-zero at construction" % (tsuf, fld), ok,
                        why if ok else "a %s can be built with %s == 0 (%s); the reader divides by it when it counts the expected fragments" % (tsuf, fld, why or "no dominating test"),
                        b.loc(s.line))
    return n


def load_table(name):
    p = os.path.join(VERIF, "tables", name)
    if not os.path.exists(p):
        return {}
    return json.load(open(p))


def run_reach(fx, rep, entries, table_name, rule, skip_fn=None, kinds=None):
    """One obligation per (function, coarse kind). `kinds`: optional predicate on Site to restrict the site classes."""
    sites, seen = collect(fx, entries, skip_fn)
    if kinds is not None:
        sites = [s for s in sites if kinds(s)]
    memo = {}
    S_FX[0] = fx
    rules = [d_const_bounds, d_interval_bounds, d_fact_bounds, d_mod_index, d_ub_bounds, d_div_const, d_sub_guarded, d_arith_range, d_usize_len_arith,
             d_unwrap_after_check, d_never_err(fx, memo), d_derive_union, d_range_index, d_alloc_untainted, d_unreachable_arm, d_type_kind_arm, d_minlen_bounds, d_loop, d_returned_range(fx)]
    table = load_table(table_name)
    accepted = table.get("accepted", {})
    hist = Counter()
    groups = defaultdict(list)
    for s in sites:
        why = None
        for r in rules:
            try:
                why = r(s)
            except Exception as ex:  # a discharge rule must never hide a site
                why = None
            if why:
                break
        groups[s.key].append((s, why))
        if why:
            hist[why.split(" ")[0]] += 1
    used = set()
    n_tab = 0
    # A reviewed site keeps its review when it is moved, unchanged, into a private helper that only the reviewed function calls
    # ("extract function"): a group that exceeds its own allowance may use what the group of the same kind of its unique caller
    # has left over (reviewed count minus the undischarged sites still found there).
    und_count = {key: len([s for s, why in lst if not why]) for key, lst in groups.items()}
    callers_memo = []

    def callers_of(bid):
        if not callers_memo:
            cm = defaultdict(set)
            for b in fx.bodies.values():
                if b.mir is None or "::tests::" in b.sname:
                    continue
                for bb, t in b.mir.calls():
                    if not t.callee.indirect and t.callee.res_id in fx.bodies:
                        cm[t.callee.res_id].add(b.sname.split("::{closure")[0])
            callers_memo.append(cm)
        return callers_memo[0].get(bid, set())
    leftover = {}
    for key, ent in accepted.items():
        leftover[key] = ent["n"] - und_count.get(key, 0)
    for key in sorted(groups):
        lst = groups[key]
        s0 = lst[0][0]
        und = [s for s, why in lst if not why]
        ent = accepted.get(key)
        allowed = ent["n"] if ent else 0
        if len(und) > allowed:
            cs = callers_of(s0.body.id) - {s0.body.sname}
            if len(cs) == 1:
                ckey = "%s|%s" % (next(iter(cs)), s0.coarse)
                need = len(und) - allowed
                if leftover.get(ckey, 0) >= need:
                    leftover[ckey] -= need
                    used.add(ckey)
                    n_tab += len(und)
                    rep.add(rule, key.split("|")[0], s0.coarse, True, "%d site(s), %d by rule, %d reviewed as part of the only caller %s: %s" % (
                        len(lst), len(lst) - len(und), len(und), ckey.split("|")[0].split("::")[-1], accepted[ckey]["why"]), s0.body.loc(min(s.line for s, _ in lst)))
                    continue
        loc = s0.body.loc(min(s.line for s, _ in lst))
        if not und:
            rep.add(rule, key.split("|")[0], s0.coarse, True, "%d site(s): %s" % (len(lst), "; ".join(sorted({w for _, w in lst}))[:300]), loc)
            continue
        if ent:
            used.add(key)
        if len(und) <= allowed:
            n_tab += len(und)
            rep.add(rule, key.split("|")[0], s0.coarse, True, "%d site(s), %d by rule, %d reviewed: %s" % (len(lst), len(lst) - len(und), len(und), ent["why"]), loc)
            continue
        lines = ["%s [%s]" % (s.what[:140], s.body.loc(s.line).split("/")[-1]) for s in sorted(und, key=lambda s: s.line)]
        rep.add(rule, key.split("|")[0], "%s: %d site(s) not discharged" % (s0.coarse, len(und) - allowed), False,
                "reachable via %s ; undischarged: %s%s" % (" -> ".join(p.split("::")[-1] for p in s0.path[-5:]), " || ".join(lines)[:900],
                                                         (" ; the reviewed table covers %d of them (%s)" % (allowed, ent["why"])) if ent else ""),
                s0.body.loc(sorted(und, key=lambda s: s.line)[0].line))
    hist["table"] = n_tab
    rep.extra.setdefault("reach", {})[rule] = {"entries": len(entries), "reachable_functions": len(seen), "sites": len(sites), "groups": len(groups),
                                              "discharge_histogram": dict(hist), "stale_table_entries": sorted(set(accepted) - used)[:50]}
    return sites, seen, groups
