"""C32 — WaitSet wakes whenever an attached condition becomes true (structural).

R32a  every DcpsStatusCondition method that writes `enabled_statuses` or pushes onto `status_changes`
      re-evaluates get_trigger_value() afterwards and, on its true edge, drains
      registered_notifications and notifies each sender
R32b  register_notification notifies at once on the true edge of get_trigger_value() and stores the
      sender otherwise; the three fields are touched only by DcpsStatusCondition methods, so the
      check-then-register in WaitSetAsync::wait is race free (the worker is the only mutator)
R32c  get_trigger_value is true exactly through `enabled_statuses.is_enabled(s)` for some s in status_changes
R32d  every implemented status getter clears the communication state of its own kind
R32e  WaitSetAsync::wait re-collects the trigger values after the notification and registers a
      notification on every attached condition before waiting
"""
from vplib import expr as E
from vplib.facts import path_endswith, Place, short_ty
from rules.common import FnCtx, cmp_norm, adder

TECHNIQUE = "sibling scan over DcpsStatusCondition mutators (must-follow path rule), who-may-touch, guard dominance"
ASSUMPTIONS = ["the DDS worker task is the only mutator of DcpsStatusCondition (single actor)"]

FIELDS = ("enabled_statuses", "status_changes", "registered_notifications")


def field_of(e):
    if e[0] in ("param", "local") and e[2]:
        return e[2][-1]
    if e[0] == "call" and e[4]:
        return e[4][-1]
    return None


def mutators(facts, rep):
    n = 0
    for b in facts.bodies.values():
        if b.kind != "AssocFn" or short_ty(b.impl_self or "") != "DcpsStatusCondition" or b.impl_trait is not None:
            continue
        fc = FnCtx(b)
        m = fc.mir
        muts = [(bb, s.line, "enabled_statuses") for bb, i, s in fc.field_writes("DcpsStatusCondition", "enabled_statuses")]
        muts += [(bb, t.line, "status_changes") for bb, t in fc.calls("Vec::push", "Vec::insert", "Vec::extend") if field_of(fc.arg(t, 0)) == "status_changes"]
        if not muts:
            continue
        trig = fc.calls("DcpsStatusCondition::get_trigger_value")
        tb = [bb for bb, _ in trig]
        rets = set(m.return_blocks())
        for bb, line, f in muts:
            n += 1
            ok = bool(tb) and not (m.reachable(bb, removed_blocks=tb) & rets)
            rep.add("R32a", b.sname, "mutation of %s is followed by a re-evaluation of the trigger value" % f, ok,
                    "after changing %s the method returns without testing get_trigger_value(): a WaitSet already waiting on this "
                    "condition is not woken although the condition became true" % f, b.loc(line))
        # on the true edge: drain + notify
        g = fc.guards(lambda ce: "true" if E.is_call(E.strip_casts(ce.expr), "DcpsStatusCondition::get_trigger_value") else None)
        drains = [bb for bb, t in fc.calls("Vec::drain") if field_of(fc.arg(t, 0)) == "registered_notifications"]
        notifies = [bb for bb, t in fc.calls("NotificationSender::notify")]
        ok2 = bool(g) and bool(drains) and bool(notifies) and all(any(d in m.reachable(gt) for d in drains) and any(x in m.reachable(gt) for x in notifies) for (_, gt) in g)
        rep.add("R32a", b.sname, "true trigger drains registered_notifications and notifies every waiter", ok2 if muts else True,
                "no drain/notify of registered_notifications on the true edge of get_trigger_value()", b.loc())
    return n


def register(facts, rep):
    b = facts.fn("DcpsStatusCondition", "register_notification")
    fc = FnCtx(b)
    add = adder(rep, b)
    g_true = fc.guards(lambda ce: "true" if E.is_call(E.strip_casts(ce.expr), "DcpsStatusCondition::get_trigger_value") else None)
    g_false = fc.guards(lambda ce: "false" if E.is_call(E.strip_casts(ce.expr), "DcpsStatusCondition::get_trigger_value") else None)
    n = [bb for bb, t in fc.calls("NotificationSender::notify")]
    p = [bb for bb, t in fc.calls("Vec::push") if field_of(fc.arg(t, 0)) == "registered_notifications"]
    add("R32b", "already-true condition notifies the new waiter immediately", bool(n) and bool(g_true) and fc.only_through(n, g_true),
        "no immediate notify on the true edge of get_trigger_value()")
    add("R32b", "otherwise the sender is stored", bool(p) and bool(g_false) and fc.only_through(p, g_false),
        "sender not stored on the false edge")
    # every path does one or the other
    m = fc.mir
    rets = set(m.return_blocks())
    add("R32b", "every path either notifies or stores", not (m.reachable(0, removed_blocks=n + p) & rets),
        "a path drops the notification sender without notifying or storing it")
    k = 0
    for ob in facts.bodies.values():
        if not ob.is_fn_like():
            continue
        for f in FIELDS:
            if ob.touches_field("DcpsStatusCondition", f):
                k += 1
                root = ob
                while root.parent in facts.bodies:
                    root = facts.bodies[root.parent]
                ok = short_ty(root.impl_self or "") == "DcpsStatusCondition"
                rep.add("R32b", ob.sname, "field %s touched only by DcpsStatusCondition methods" % f, ok,
                        "status-condition state accessed from outside its methods (bypasses the notify-on-change discipline)", ob.loc())
    return k


def trigger_value(facts, rep):
    b = facts.fn("DcpsStatusCondition", "get_trigger_value")
    fc = FnCtx(b)
    add = adder(rep, b)
    m = fc.mir

    def en(ce):
        e = E.strip_casts(ce.expr)
        if E.is_call(e, "StatusMask::is_enabled") and len(e[2]) == 2 and field_of(e[2][0]) == "enabled_statuses":
            return "true"
        return None
    g = fc.guards(en)
    trues = [bb for bb, i, s in m.stmts() if s.kind == "assign" and s.lhs.is_local() and s.lhs.local == 0 and fc.rv_expr(s) == ("const", 1)]
    falses = [bb for bb, i, s in m.stmts() if s.kind == "assign" and s.lhs.is_local() and s.lhs.local == 0 and fc.rv_expr(s) == ("const", 0)]
    ret = fc.eb.place(Place([0, []]))
    if not trues and E.is_call(ret, "Iterator::any"):
        kids = facts.closure_of(b)
        ok = any(k.calls_any("StatusMask::is_enabled") for k in kids) and E.mentions_field(ret, "status_changes")
        add("R32c", "trigger = any(status in status_changes: enabled)", ok, "shape %s" % fc.show(ret)[:160])
        return
    add("R32c", "returns true only when an enabled status is in status_changes", bool(trues) and bool(g) and fc.only_through(trues, g),
        "true reachable without enabled_statuses.is_enabled(status)")
    add("R32c", "returns false otherwise", bool(falses), "no false result")
    # the tested status comes from iterating status_changes
    ok = False
    for sb, ce in fc.ces.items():
        e = E.strip_casts(ce.expr)
        if E.is_call(e, "StatusMask::is_enabled") and len(e[2]) == 2:
            ok = E.mentions_field(e[2][1], "status_changes")
    add("R32c", "tested status iterates over status_changes", ok, "is_enabled argument does not come from status_changes")


def getters(facts, rep):
    n = 0
    for b in facts.bodies.values():
        if b.kind != "AssocFn" or not (b.item_name or "").startswith("get_") or not (b.item_name or "").endswith("_status"):
            continue
        if short_ty(b.impl_self or "") not in ("DcpsDomainParticipant",):
            continue
        kind = "".join(w.capitalize() for w in b.item_name[4:-7].split("_"))
        fam = [b] + facts.descendants(b)
        # direct or one level down
        cands = list(fam)
        for x in fam:
            for cid in x.sum_edges:
                c = facts.bodies.get(cid)
                if c is not None and c.calls_any("remove_communication_state"):
                    cands.append(c)
        ok = False
        for c in cands:
            if not c.calls_any("remove_communication_state"):
                continue
            fc = FnCtx(c)
            for bb, t in fc.calls("DcpsStatusCondition::remove_communication_state"):
                a = fc.arg(t, 1)
                if a[0] == "adt" and path_endswith(a[1], "StatusKind") and a[2] == kind:
                    ok = True
        n += 1
        rep.add("R32d", b.sname, "status getter clears communication state %s" % kind, ok,
                "reading the status does not remove StatusKind::%s from the status condition: the trigger value stays true after the read" % kind, b.loc())
    return n


def waitset(facts, rep):
    # the async fn body is the coroutine closure of WaitSetAsync::wait
    w = facts.fn("WaitSetAsync", "wait")
    bodies = facts.descendants(w)
    add = adder(rep, w)
    cor = [b for b in bodies if b.calls_any("notification")]
    if not cor:
        add("R32e", "wait creates a notification channel", False, "no call to notification() in WaitSetAsync::wait")
        return 0
    b = cor[0]
    fc = FnCtx(b)
    m = fc.mir
    reg = [bb for bb, t in fc.calls_deep(facts, "StatusConditionAsync::register_notification")]
    trig = [bb for bb, t in fc.calls_deep(facts, "ConditionAsync::get_trigger_value")]
    chan = [bb for bb, t in fc.calls("notification")]
    add("R32e", "wait registers a notification on the attached conditions", bool(reg), "no register_notification call")
    add("R32e", "trigger values are collected before and after waiting", len(trig) >= 2, "get_trigger_value is called %d time(s)" % len(trig))
    # after the channel is created, a trigger collection is reachable only through the registration
    after = [bb for bb in trig if any(bb in m.reachable(c) for c in chan)]
    add("R32e", "trigger values are re-collected after the notification", bool(after), "no get_trigger_value after the notification channel is created")
    for bb in after:
        # (a zero-iteration registration loop is excluded by the `conditions.is_empty()` early return, which a
        # path rule cannot see; the rule therefore asks for the registration to lie between channel creation and re-collection)
        add("R32e", "registration lies between channel creation and re-collection", bool(reg) and any(r in m.reachable(chan[0]) and bb in m.reachable(r) for r in reg),
            "no register_notification between notification() and the post-wait collection")
    return len(reg) + len(trig)


def run(ctx, rep):
    fx = ctx.facts
    n = mutators(fx, rep)
    rep.floor("R32a", n, 2, "mutations of enabled_statuses / status_changes in DcpsStatusCondition methods")
    k = register(fx, rep)
    rep.floor("R32b", k, 6, "field accesses of DcpsStatusCondition state")
    trigger_value(fx, rep)
    g = getters(fx, rep)
    rep.floor("R32d", g, 4, "implemented status getters")
    w = waitset(fx, rep)
    rep.floor("R32e", w, 3, "register/trigger calls in WaitSetAsync::wait")
