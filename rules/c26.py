"""C26 — A sample failing the content filter never causes another sample to be lost (one clause).

R26a  the per-change loops that drain a reader's received changes (`for cache_change in
      mem::take(changes)`) in process_user_defined_received_cache_changes and
      BuiltinDataReader::process_cache_changes have a single exit: the None edge of the iterator.
      Any other edge leaving the loop body (return, break, `continue 'outer`) abandons the rest of
      a batch that was already taken out of the transport reader — those samples are lost.
R26b  filter mismatch edges stay inside the loop (implied by R26a) and the filter evaluation contains no
      diverging arm for member kinds (todo!/unimplemented!) — reported under C06 (shared reachability rule).
Filter evaluation semantics are not decided.
"""
from vplib import expr as E
from rules.common import FnCtx, adder

TECHNIQUE = "natural-loop extraction on MIR + exit-edge enumeration for loops over a taken (mem::take) batch"
ASSUMPTIONS = ["the batch is owned by the loop (mem::take): abandoning the iterator drops the remaining changes"]


def batch_loops(fx, b, rep):
    fc = FnCtx(b)
    m = fc.mir
    loops = m.natural_loops()
    n = 0
    for bb, t in fc.calls("Iterator::next"):
        st = t.callee.self_ty or ""
        arg = fc.arg(t, 0)
        if "IntoIter" not in st or "CacheChange" not in st:
            continue
        if not E.mentions_call(arg, "mem::take", "core::mem::take", "Vec::drain"):
            continue
        # the loop whose body contains this call
        cands = [h for h, body in loops.items() if bb in body]
        if not cands:
            continue
        h = min(cands, key=lambda x: len(loops[x]))
        body = loops[h]
        none_t = None
        sw = None
        for sb, ce in fc.ces.items():
            if ce.expr[0] == "discr" and ce.expr[1][0] == "call" and ce.expr[1][3] == bb and not ce.expr[1][4]:
                none_t = ce.target_for(0)
                sw = sb
        n += 1
        exits = []
        rets = set(m.return_blocks())
        for x in sorted(body):
            for s in m.succ(x):
                if s not in body and not (x == sw and s == none_t):
                    # edges into blocks that can only diverge (panic / unreachable) are C06's subject, not an early exit
                    if not (m.reachable(s) & rets):
                        continue
                    exits.append((x, s))
        rep.add("R26a", b.sname, "batch loop over the taken changes has a single exit (iterator exhausted)", not exits,
                "%d edge(s) leave the loop before the batch is exhausted (source lines %s): the remaining changes of the batch, "
                "already removed from the transport reader, are dropped — e.g. one sample that fails to deserialize or does not pass "
                "the content filter discards every later sample received in the same datagram burst"
                % (len(exits), sorted({m.blocks[x].term.line for x, s in exits})), b.loc(t.line))
    return n


def run(ctx, rep):
    fx = ctx.facts
    n = 0
    for ty, name in (("DcpsDomainParticipant", "process_user_defined_received_cache_changes"), ("BuiltinDataReader", "process_cache_changes")):
        n += batch_loops(fx, fx.fn(ty, name), rep)
    rep.floor("R26a", n, 2, "batch loops over taken cache changes")
