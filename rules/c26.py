"""C26 — A sample failing the content filter never causes another sample to be lost (one clause).

R26a  the per-change loops that drain a reader's received changes (`for cache_change in
      mem::take(changes)`) in process_user_defined_received_cache_changes and
      BuiltinDataReader::process_cache_changes have a single exit: the None edge of the iterator.
      Any other edge leaving the loop body (return, break, `continue 'outer`) abandons the rest of
      a batch that was already taken out of the transport reader — those samples are lost.
R26b  filter mismatch edges stay inside the loop (implied by R26a) and the filter evaluation contains no
      diverging arm for member kinds (todo!/unimplemented!) — reported under C06 (shared reachability rule).
R26c  filter evaluation is stateless across samples: every iterator that is advanced inside the per-change loop (other than the
      loop's own) is created inside the loop, so evaluating the filter for one sample cannot consume state the next sample needs
R26d  the comparison helpers of the filter agree per operator: `=` is `==` and `<=` is `<=` for every operand type
      (compare_string / compare_int32 are siblings)
Filter evaluation semantics beyond that are not decided.
"""
from vplib import expr as E
from rules.common import FnCtx, adder

TECHNIQUE = "natural-loop extraction on MIR + exit-edge enumeration for loops over a taken (mem::take) batch"
ASSUMPTIONS = ["the batch is owned by the loop (mem::take): abandoning the iterator drops the remaining changes"]


def batch_loops(fx, b, rep):
    fc = FnCtx(b)
    m = fc.mir
    loops = m.natural_loops()
    n = 0
    for bb, t in fc.calls("Iterator::next"):
        st = t.callee.self_ty or ""
        arg = fc.arg(t, 0)
        if "IntoIter" not in st or "CacheChange" not in st:
            continue
        if not E.mentions_call(arg, "mem::take", "core::mem::take", "Vec::drain"):
            continue
        # the loop whose body contains this call
        cands = [h for h, body in loops.items() if bb in body]
        if not cands:
            continue
        h = min(cands, key=lambda x: len(loops[x]))
        body = loops[h]
        none_t = None
        sw = None
        for sb, ce in fc.ces.items():
            if ce.expr[0] == "discr" and ce.expr[1][0] == "call" and ce.expr[1][3] == bb and not ce.expr[1][4]:
                none_t = ce.target_for(0)
                sw = sb
        n += 1
        exits = []
        rets = set(m.return_blocks())
        for x in sorted(body):
            for s in m.succ(x):
                if s not in body and not (x == sw and s == none_t):
                    # edges into blocks that can only diverge (panic / unreachable) are C06's subject, not an early exit
                    if not (m.reachable(s) & rets):
                        continue
                    exits.append((x, s))
        rep.add("R26a", b.sname, "batch loop over the taken changes has a single exit (iterator exhausted)", not exits,
                "%d edge(s) leave the loop before the batch is exhausted (source lines %s): the remaining changes of the batch, "
                "already removed from the transport reader, are dropped — e.g. one sample that fails to deserialize or does not pass "
                "the content filter discards every later sample received in the same datagram burst"
                % (len(exits), sorted({m.blocks[x].term.line for x, s in exits})), b.loc(t.line))
    return n


def stateless_per_sample(fx, b, rep):
    fc = FnCtx(b)
    m = fc.mir
    loops = m.natural_loops()
    n = 0
    # the per-change loop: the loop that contains the add_reader_change call
    anchors = [bb for bb, t in fc.calls("add_reader_change")]
    if not anchors:
        return 0
    cands = [h for h, body in loops.items() if anchors[0] in body]
    if not cands:
        return 0
    # outermost loop that iterates the changes: the smallest loop whose own iterator is the CacheChange IntoIter
    per_change = None
    for h in sorted(cands, key=lambda x: len(loops[x])):
        for bb, t in fc.calls("Iterator::next"):
            if bb in loops[h] and "CacheChange" in (t.callee.self_ty or "") and "IntoIter" in (t.callee.self_ty or ""):
                per_change = h
        if per_change is not None:
            break
    if per_change is None:
        return 0
    body = loops[per_change]
    # every use of an iterator inside the loop: next(), or a consuming / searching adaptor (find_map, any, position, ..)
    CONSUMERS = ("next", "next_back", "nth", "find", "find_map", "any", "all", "position", "rposition", "fold", "count", "last", "max", "min", "sum",
                 "for_each", "collect", "try_fold")
    uses = [(bb, t) for bb, t in m.calls() if not t.callee.indirect and t.callee.method() in CONSUMERS and (t.callee.trait or "").endswith("Iterator") and t.args]
    for bb, t in uses:
        if bb not in body or t.callee.indirect:
            continue
        st = t.callee.self_ty or ""
        if "CacheChange" in st and "IntoIter" in st:
            continue
        a0 = t.args[0]
        if a0.place is None:
            continue
        # where was the iterator this call advances created?
        src = a0.place.local
        created = None
        for _ in range(4):
            ds = m.whole_defs(src)
            if len(ds) != 1:
                break
            d = ds[0]
            if d[0] == "t":
                created = d[1]
                break
            rv = d[3].rv
            if rv is not None and rv.kind in ("ref", "use", "rawptr") and (rv.place is not None or (rv.ops and rv.ops[0].place is not None)):
                src = (rv.place or rv.ops[0].place).local
                continue
            created = d[1]
            break
        if created is None:
            continue
        n += 1
        rep.add("R26c", b.sname, "iterator advanced per sample is created per sample", created in body,
                "an iterator created before the per-change loop (block %s) is advanced inside it: the first sample consumes it and the filter of every later sample of the batch sees an exhausted iterator" % created,
                b.loc(t.line))
    return n


def operator_agreement(fx, rep):
    """R26d: per Operator variant, compare_* helpers use the same relational operator"""
    helpers = [b for b in fx.bodies.values() if (b.item_name or "").startswith("compare_") and b.is_fn_like() and "Operator" in (b.impl_self or b.sname) and "communication_methods" in b.sname]
    tabs = {}
    for b in helpers:
        fc = FnCtx(b)
        m = fc.mir
        dom = m.dominators()
        tab = {}
        for sb, ce in fc.ces.items():
            if not ce.is_discr():
                continue
            for v, tgt in ce.arms + ([("otherwise", ce.otherwise)] if ce.otherwise is not None else []):
                ops = set()
                for x, ds in dom.items():
                    if ds is None or tgt not in ds:
                        continue
                    t = m.blocks[x].term
                    if t.kind == "call" and not t.callee.indirect and t.callee.method() in ("eq", "ne", "lt", "le", "gt", "ge"):
                        ops.add(t.callee.method())
                    for s in m.blocks[x].stmts:
                        if s.kind == "assign" and s.rv is not None and s.rv.kind == "binop" and s.rv.op in ("Eq", "Ne", "Lt", "Le", "Gt", "Ge"):
                            ops.add(s.rv.op.lower())
                if ops:
                    tab[v] = tuple(sorted(ops))
        tabs[b.sname] = tab
    n = len(tabs)
    if n >= 2:
        vals = list(tabs.items())
        ref = vals[0][1]
        for name, tab in vals[1:]:
            rep.add("R26d", name, "the comparison used per filter operator is the same as in %s" % vals[0][0].split("::")[-1], tab == ref,
                    "operator tables differ: %s vs %s — a filter `x <= p` then treats x == p differently depending on the member type" % (tab, ref))
    return n


def run(ctx, rep):
    fx = ctx.facts
    k = stateless_per_sample(fx, fx.fn("DcpsDomainParticipant", "process_user_defined_received_cache_changes"), rep)
    rep.floor("R26c", k, 1, "iterators advanced inside the per-change loop")
    h = operator_agreement(fx, rep)
    rep.floor("R26d", h, 2, "filter comparison helpers")
    n = 0
    for ty, name in (("DcpsDomainParticipant", "process_user_defined_received_cache_changes"), ("BuiltinDataReader", "process_cache_changes")):
        n += batch_loops(fx, fx.fn(ty, name), rep)
    rep.floor("R26a", n, 2, "batch loops over taken cache changes")
