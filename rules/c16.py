"""C16 — Matched-status counts track the actual matched set (bookkeeping pairing rules).

R16a  every size-changing mutation of matched_subscription_list / matched_publication_list is followed on
      all normal paths (in the same function, or after the call in every caller, depth <= 2) by
      (i) current_count := list.len(), (ii) add_communication_state(<Matched kind>) and — for removals —
      (iii) delete_matched_reader / delete_matched_writer on the RTPS endpoint
R16b  total_count / total_count_change / current_count_change are incremented only when a NEW entry is
      added (None arm of the lookup by key), never on replacement; every write to a *_change field is
      `old +- 1` (or the reset to 0 inside the status getter)
R16c  an endpoint whose re-evaluation yields a non-empty incompatible-QoS list is not left in the matched list
R16d  the matched-status getters reset both change fields and clear the communication state
R16e  remove_discovered_participant removes the participant's endpoints from BOTH matched lists
"""
from vplib import expr as E
from vplib.facts import path_endswith, short_ty
from rules.common import FnCtx, cmp_norm, adder

TECHNIQUE = "must-follow path rules (intra-procedural, lifted to callers through the call graph), new-entry-arm dominance for counters, shape of counter updates"
ASSUMPTIONS = ["current_count is stored (not recomputed on read), as today"]

LISTS = {"matched_subscription_list": ("UserDefinedDataWriter", "publication_matched_status", "PublicationMatched", "delete_matched_reader"),
         "matched_publication_list": ("DataReaderEntity", "subscription_matched_status", "SubscriptionMatched", "delete_matched_writer")}
GROW = ("Vec::push", "Vec::insert", "Vec::extend")
SHRINK = ("Vec::remove", "Vec::retain", "Vec::retain_mut", "Vec::clear", "Vec::drain", "Vec::swap_remove", "Vec::pop", "Vec::truncate")


def field_of(e):
    if e[0] in ("param", "local") and e[2]:
        return e[2][-1]
    if e[0] == "call" and e[4]:
        return e[4][-1]
    return None


def followed(fx, body, bb, finder, depth=2, chain=None, allow_before=False):
    """all paths from block bb to the function's return pass a block found by finder(FnCtx);
    otherwise the requirement is lifted to every call site of the function.
    allow_before: the event may also be dominated by such a block (done just before)."""
    chain = (chain or []) + [body.sname]
    fc = FnCtx(body)
    m = fc.mir
    blocks = finder(fc)
    rets = set(m.return_blocks())
    if blocks and not (m.reachable(bb, removed_blocks=blocks) & rets) or bb in blocks:
        return True, chain
    if allow_before and blocks and bb not in m.reachable(0, removed_blocks=blocks):
        return True, chain
    if depth == 0:
        return False, chain
    root = body
    while root.parent in fx.bodies:
        root = fx.bodies[root.parent]
    callers = fx.callers_of(root.id)
    if not callers:
        return False, chain
    for c in callers:
        cf = FnCtx(c)
        sites = [b2 for b2, t in cf.mir.calls() if not t.callee.indirect and t.callee.res_id == root.id]
        for s in sites:
            ok, ch = followed(fx, c, s, finder, depth - 1, chain, allow_before)
            if not ok:
                return False, ch
    return True, chain


def mutations(fx, rep):
    n = 0
    for lst, (owner, status, kind, deleter) in LISTS.items():
        for b in fx.bodies.values():
            if not b.is_fn_like() or not b.touches_field(None, lst) or not b.calls_any(*(GROW + SHRINK)):
                continue
            fc = FnCtx(b)
            for bb, t in fc.calls(*(GROW + SHRINK)):
                if not t.args or field_of(fc.arg(t, 0)) != lst:
                    continue
                n += 1
                shrink = t.callee.is_(*SHRINK)

                def f_count(c, status=status, lst=lst):
                    out = []
                    for b2, i, s in c.field_writes(None, "current_count"):
                        e = c.rv_expr(s)
                        if any(p[0] == "field" and p[4] == status for p in s.lhs.proj) and E.mentions_field(e, lst):
                            out.append(b2)
                    return out

                def f_state(c, kind=kind):
                    return [b2 for b2, t2 in c.calls("DcpsStatusCondition::add_communication_state")
                            if (lambda a: a[0] == "adt" and a[2] == kind)(c.arg(t2, 1))]

                def f_del(c, deleter=deleter):
                    return [b2 for b2, t2 in c.calls(deleter)]
                for what, finder in (("current_count := %s.len()" % lst, f_count), ("add_communication_state(%s)" % kind, f_state)) + \
                        ((("%s on the RTPS endpoint" % deleter, f_del),) if shrink else ()):
                    # the proxy may also be deleted just before the list entry is dropped
                    ok, chain = followed(fx, b, bb, finder, allow_before=what.startswith("delete"))
                    rep.add("R16a", b.sname, "%s of %s is followed by %s" % ("removal" if shrink else "insertion", lst, what), ok,
                            "a path after the mutation reaches the end of %s without it: the matched status no longer describes the matched set%s"
                            % (" <- ".join(reversed(chain)), " and the RTPS endpoint keeps addressing the removed peer" if what.startswith("delete") else ""),
                            b.loc(t.line))
    return n


def counters(fx, rep):
    n = 0
    for b in fx.bodies.values():
        if not b.is_fn_like():
            continue
        hit = [(a, f) for a, f in b.sum_writes if f in ("total_count", "total_count_change", "current_count_change")
               and short_ty(a) in ("PublicationMatchedStatus", "SubscriptionMatchedStatus")]
        if not hit:
            continue
        fc = FnCtx(b)
        m = fc.mir
        is_getter = (b.item_name or "").startswith("get")
        for f in ("total_count", "total_count_change", "current_count_change"):
            for bb, i, s in fc.field_writes(None, f):
                if short_ty(s.lhs.proj[-1][2]) not in ("PublicationMatchedStatus", "SubscriptionMatchedStatus"):
                    continue
                n += 1
                e = fc.rv_expr(s)
                rel = e[0] == "bin" and e[1] in ("Add", "Sub") and e[3] == ("const", 1) and field_of(E.strip_casts(e[2])) == f
                reset = e == ("const", 0)
                rep.add("R16b", b.sname, "%s is updated relative to its old value (+-1) or reset by the getter" % f,
                        rel or (reset and is_getter),
                        "%s := %s — the change fields must equal the difference since the last read" % (f, fc.show(e)[:60]), b.loc(s.line))
                if rel and e[1] == "Add":
                    # increments of totals / current change only for NEW entries
                    lst = "matched_subscription_list" if "Publication" in s.lhs.proj[-1][2] else "matched_publication_list"

                    def new_entry(ce, lst=lst):
                        x = ce.expr
                        if x[0] == "discr" and E.is_call(x[1], "Iterator::find") and E.mentions_field(x[1], lst):
                            return 0
                        c = E.strip_casts(x)
                        # (`list.contains(&data)` compares whole entries, not keys: it is not a new-entry test)
                        if E.is_call(c, "Iterator::any") and E.mentions_field(c, lst):
                            return "false"
                        return None
                    g = fc.guards(new_entry)
                    ok = bool(g) and fc.only_through([bb], g)
                    rep.add("R16b", b.sname, "%s incremented only when a new entry is added to %s" % (f, lst), ok,
                            "the increment is also reached when an existing entry is replaced (e.g. after a QoS update of the same "
                            "endpoint): total_count counts one distinct match more than once", b.loc(s.line))
    return n


def rematch(fx, rep):
    """R16c: the incompatible branch of the re-evaluation removes an existing match."""
    n = 0
    for name, lst, adder_call in (("process_discovered_readers", "matched_subscription_list", "add_incompatible_subscription"),
                                  ("process_discovered_writers", "matched_publication_list", "add_requested_incompatible_qos")):
        b = fx.fn("DcpsDomainParticipant", name)
        fc = FnCtx(b)
        m = fc.mir
        for bb, t in fc.calls(adder_call):
            n += 1
            removers = [b2 for b2, t2 in fc.calls(*SHRINK) if t2.args and field_of(fc.arg(t2, 0)) == lst]
            removers += [b2 for b2, t2 in fc.calls("remove_matched_subscription", "remove_matched_publication")]
            heads = [h for h, t3 in fc.calls("Iterator::next")]
            # the removal is conditional on the endpoint being matched, so it need not lie on every path:
            # it must exist in the incompatible branch (reach the report, or be reached from it, within one iteration)
            near = [r0 for r0 in removers if bb in m.reachable(r0, removed_blocks=heads) or r0 in m.reachable(bb, removed_blocks=heads)]
            # and it must be exclusive to the incompatible outcome (not reachable when the list is empty -> compatible branch)
            rep.add("R16c", b.sname, "an endpoint found incompatible is taken out of %s" % lst, bool(near),
                    "the incompatible branch never removes an existing entry: an endpoint that was matched and then changed its QoS to an "
                    "incompatible value stays in the matched set (counts do not drop, data keeps flowing)", b.loc(t.line))
    return n


def getters(fx, rep):
    n = 0
    for name, status, kind in (("get_publication_matched_status", "publication_matched_status", "PublicationMatched"),
                               ("get_subscription_matched_status", "subscription_matched_status", "SubscriptionMatched")):
        b = fx.fn("DcpsDomainParticipant", name)
        fam = [b]
        for cid in b.sum_edges:
            c = fx.bodies.get(cid)
            if c is not None and (c.item_name or "").startswith("get"):
                fam.append(c)
        resets = set()
        for x in fam:
            fc = FnCtx(x)
            for f in ("total_count_change", "current_count_change"):
                for bb, i, s in fc.field_writes(None, f):
                    if fc.rv_expr(s) == ("const", 0):
                        resets.add(f)
        n += 1
        rep.add("R16d", b.sname, "getter resets total_count_change and current_count_change", resets == {"total_count_change", "current_count_change"},
                "reset fields: %s" % sorted(resets), b.loc())
        fc = FnCtx(b)
        ok = any((lambda a: a[0] == "adt" and a[2] == kind)(fc.arg(t, 1)) for bb, t in fc.calls("DcpsStatusCondition::remove_communication_state"))
        rep.add("R16d", b.sname, "getter clears the %s communication state" % kind, ok, "remove_communication_state(%s) missing" % kind, b.loc())
    return n


def participant_removal(fx, rep):
    b = fx.fn("DcpsDomainParticipant", "remove_discovered_participant")
    fc = FnCtx(b)
    fam = [b] + fx.descendants(b)
    add = adder(rep, b)
    for lst in LISTS:
        rem = [(bb, t) for bb, t in fc.calls(*SHRINK) if t.args and field_of(fc.arg(t, 0)) == lst]
        rem += [(bb, t) for bb, t in fc.calls("remove_matched_subscription" if "subscription" in lst else "remove_matched_publication")]
        add("R16e", "a lost participant's endpoints are removed from %s" % lst, bool(rem),
            "remove_discovered_participant never removes entries from %s: the lost participant's endpoints stay matched "
            "(current_count does not drop)" % lst)


    # sibling agreement: the reader half and the writer half select the departed participant's endpoints by the same identity
    # field of the announced data (`key`, the endpoint GUID, or `participant_key`, which is optional on the wire and zero when
    # a remote implementation omits it): halves that disagree drop the endpoints on one side only
    sel = {}
    for kid in fam:
        if not kid.kind.startswith("Closure") or kid.mir.locals[0] != "bool":
            continue
        flds = {f for a, f in (tuple(x) for x in (kid.sum_fields or ())) if short_ty(a).endswith("BuiltinTopicData") and f in ("key", "participant_key")}
        if flds:
            sel[kid.sname] = flds
    kinds = {frozenset(v) for v in sel.values()}
    add("R16e", "endpoint selections of remove_discovered_participant use the same identity field in both halves", len(kinds) <= 1,
        "the predicates disagree: %s" % {k.split("::")[-1]: sorted(v) for k, v in sel.items()})
    return len(sel)


def run(ctx, rep):
    fx = ctx.facts
    n = mutations(fx, rep)
    rep.floor("R16a", n, 4, "size-changing mutations of the matched lists")
    k = counters(fx, rep)
    rep.floor("R16b", k, 10, "writes to matched-status counters")
    r = rematch(fx, rep)
    rep.floor("R16c", r, 2, "incompatible-QoS branches of the endpoint re-evaluation")
    g = getters(fx, rep)
    rep.floor("R16d", g, 2, "matched-status getters")
    nsel = participant_removal(fx, rep)
    rep.floor("R16e-sel", nsel, 2, "endpoint selection predicates in remove_discovered_participant")
