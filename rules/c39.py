"""C39 — Compatible type evolution preserves common members (structural clauses only).

"For every assignable pair of types and every value the reader decodes the writer's values for the common members and defaults
for the rest" is equality of two algorithms' behaviour over generated types and is not decided. Decided are the clauses of the
property whose truth is visible in the shape of the assignability relation (xtypes/type_object.rs), of the decoder
(xtypes/deserializer.rs) and of the matching code (discovery_methods.rs); each is a necessary condition — breaking it breaks the
behaviour for some pair of related types:

R39a  assignability is reflexive: CompleteTypeObject::is_assignable_from_w_type_consistency answers `true` for equal arguments before
      anything else (the equality test on the two arguments is the first decision, its true edge only returns true, every other
      result lies behind its false edge). The remainder of the function is not reflexive by itself (an appendable struct without
      members, member types of unsupported kinds), so the shortcut is what makes the relation reflexive.
R39b  member types: in TypeIdentifier::is_assignable_from_w_type_consistency the arm of every supported kind can answer something
      other than `false` when the other identifier has the same kind (a common member of unchanged type never makes two related types
      unassignable). Kinds for which the arm is constantly false are listed in UNSUPPORTED with the reason.
R39c  direction and policy at the matching call sites: the reader's type is the receiver, the writer's type the argument, and the
      TypeConsistencyEnforcement policy is the reader's — on the writer side (process_discovered_readers: discovered reader against
      local writer) and on the reader side (process_discovered_writers: local reader against discovered writer).
R39d  XCDR2 "members added at the end / removed / unknown": decoders of appendable and mutable structs and unions read the members
      within the extent the DHEADER announces and continue behind it (shared with C09 R09k)
R39e  XCDR1 mutable types: the decoder continues behind the sentinel of the object (shared with C09 R09l)
R39f  XCDR2 mutable types: members are found by their full 28-bit id (shared with C09 R09m)
R39g  "defaults for the rest", appendable: in deserialize_fstruct_type a member of an appendable type that finds no more data
      (Err(NotEnoughData)) ends the decoding successfully instead of propagating the error; the test is reachable only for
      appendable types or members marked use-default
R39h  "added / removed / reordered", mutable: deserialize_mmember (both versions) searches each member by id from the start of the
      object (the read position saved before the search is restored on every path to the return) and a member that is not found is
      not an error (the result of the search is not propagated with `?`)
R39j  "reordered", assignability side: in CompleteTypeObject::is_assignable_from_w_type_consistency members of the two types are paired
      by position (Iterator::zip of the two member sequences) only where neither type is mutable — the pairing is reachable only
      through the not-mutable edge of the MUTABLE flag test of either type; for mutable types members correspond by id
R39k  "defaults for the rest", typed samples: for the appendable / mutable reader types declared in fixtures/derive_cases
      (Evolved*Reader, compiled against /repo's current derive macro) create_sample gives a member that is absent from the dynamic
      data its default instead of returning None. KNOWN FINDING for named members (the macro does it for tuple structs only).
R39i  "assignability agrees with decoding": a member type identified by hash (EkComplete / EkMinimal) is compared — the arm reads
      the hashes or resolves them. KNOWN FINDING on the current tree: two hashed identifiers are assignable whatever they identify.
"""
from vplib import expr as E
from rules.common import FnCtx, adder
from rules import c09

TECHNIQUE = ("decision-structure analysis of the assignability functions over MIR (dominating equality shortcut, per-variant switch tables), "
             "argument-origin check at the matching call sites, and sibling checks of the decoder (delimiting by DHEADER / sentinel, "
             "must-pass-through of position restore, error-propagation shape)")
ASSUMPTIONS = ["behavioural equivalence of assignability and decoding over all type pairs and values is not decided",
               "PartialEq of the type objects is the derived structural equality (a true answer of `self == t2` means equal types)"]

# kinds for which TypeIdentifier::is_assignable_from_w_type_consistency is constantly false, with the reason it is not a violation of R39b
UNSUPPORTED = {
    "TkNone": "no type",
    "TiPlainMapSmall": "maps are not supported by the serializer / deserializer either (TypeKind::MAP is todo!() on both sides, C09 R09d)",
    "TiPlainMapLarge": "maps are not supported by the serializer / deserializer either",
    "TiStronglyConnectedComponent": "recursive type groups are not produced or resolved by this implementation",
    "Default": "extended type identifiers are not produced by this implementation",
}
HASHED = ("EkComplete", "EkMinimal")


def assign_fn(fx, self_suffix):
    return [b for b in fx.bodies.values() if b.is_fn_like() and b.item_name == "is_assignable_from_w_type_consistency"
            and (b.impl_self or "").endswith(self_suffix) and "::tests::" not in b.sname]


def result_kind(fc, s):
    e = E.strip_casts(fc.rv_expr(s))
    if e[0] == "const":
        return "true" if e[1] else "false"
    return "expr"


def result_blocks(fc):
    """{block: kind} for every whole assignment to the return place"""
    m = fc.mir
    out = {}
    for bb, i, s in m.stmts():
        if m.blocks[bb].cleanup:
            continue
        if s.kind == "assign" and s.lhs.local == 0 and not s.lhs.proj and s.rv is not None:
            out.setdefault(bb, set()).add(result_kind(fc, s))
    for bb, t in m.calls():
        if t.dest is not None and t.dest.local == 0 and not t.dest.proj and not m.blocks[bb].cleanup:
            out.setdefault(bb, set()).add("expr")
    return out


def explore(fc, start, other, v):
    """blocks reachable from `start` when every switch on the discriminant of parameter `other` takes the edge of value v"""
    m = fc.mir
    seen, q = set(), [start]
    while q:
        x = q.pop()
        if x in seen or m.blocks[x].cleanup:
            continue
        seen.add(x)
        ce = fc.ces.get(x)
        if ce is not None and ce.is_discr() and E.strip_casts(ce.expr[1]) == ("param", other, ()):
            q.append(ce.target_for(v))
        else:
            q.extend(m.succ(x))
    return seen


def run(ctx, rep):
    fx = ctx.facts
    # ---- R39a
    cs = assign_fn(fx, "CompleteTypeObject")
    rep.floor("R39a", len(cs), 1, "CompleteTypeObject::is_assignable_from_w_type_consistency")
    for b in cs:
        fc = FnCtx(b)
        m = fc.mir
        res = result_blocks(fc)
        cands = []
        for bb, ce in fc.ces.items():
            e = ce.expr
            if ce.true_target is None or e[0] != "call" or not e[1].endswith("::eq") or len(e[2]) != 2:
                continue
            if {E.strip_casts(e[2][0]), E.strip_casts(e[2][1])} == {("param", 1, ()), ("param", 2, ())}:
                cands.append((bb, ce))
        ok, why = False, "no test `self == t2` on the two arguments found"
        for bb, ce in cands:
            taken = m.reachable(ce.true_target, removed_blocks=[bb])
            kinds_true = set().union(*[res[x] for x in taken if x in res]) if any(x in res for x in taken) else set()
            others = [x for x in res if x not in taken]
            behind = fc.only_through(others, [(bb, ce.false_target)])
            # nothing is decided before the test: no switch is reachable from the entry without passing the test block
            early = [x for x in m.reachable(0, removed_blocks=[bb]) if m.blocks[x].term.kind == "switch" and not m.blocks[x].cleanup]
            if kinds_true == {"true"} and behind and not early:
                ok = True
            else:
                why = "equality test in bb%d: results on its true edge %s (must be only `true`), other results behind its false edge: %s, decisions before it: %s" % (
                    bb, sorted(kinds_true), behind, early[:3])
        adder(rep, b)("R39a", "assignability of equal type objects is decided `true` by a dominating equality shortcut", ok,
                      why + " — without it T.is_assignable_from(T) is false e.g. for an appendable struct without members (no common member id)")
    # ---- R39b / R39i
    ts = assign_fn(fx, "TypeIdentifier")
    rep.floor("R39b", len(ts), 1, "TypeIdentifier::is_assignable_from_w_type_consistency")
    narms = 0
    for b in ts:
        fc = FnCtx(b)
        m = fc.mir
        res = result_blocks(fc)
        names = {v.get("discr", i): v["name"] for i, v in enumerate(fx.adt("TypeIdentifier")["variants"])}
        outer = [ce for bb, ce in sorted(fc.ces.items()) if ce.is_discr() and E.strip_casts(ce.expr[1]) == ("param", 1, ()) and len(ce.arms) >= 10]
        if not outer:
            rep.add("R39b", b.sname, "match on the kind of the receiver found", False, "no switch on discriminant(self) with >= 10 arms")
            continue
        ce0 = outer[0]
        handled = {v for v, t in ce0.arms}
        for v, name in sorted(names.items()):
            tgt = ce0.target_for(v)
            blocks = explore(fc, tgt, 2, v)
            kinds = set().union(*[res[x] for x in blocks if x in res]) if any(x in res for x in blocks) else set()
            narms += 1
            if name in UNSUPPORTED:
                rep.note("R39b: %s is constantly unassignable (%s)%s" % (name, UNSUPPORTED[name], "" if kinds <= {"false"} else " — table entry is stale: the arm can answer true now"))
                continue
            adder(rep, b)("R39b", "TypeIdentifier::%s is assignable from an identifier of the same kind for some payload" % name,
                          bool(kinds - {"false"}) and v in handled or bool(kinds - {"false"}),
                          "the arm for %s answers %s when the other identifier is %s too: a member of this type, unchanged in both types, makes "
                          "every pair of related types unassignable" % (name, sorted(kinds) or "nothing", name))
            if name in HASHED:
                reads = False
                for x in blocks:
                    for s in m.blocks[x].stmts:
                        if s.kind == "assign" and s.rv is not None and E.mentions_field(fc.rv_expr(s), "equivalence_hash"):
                            reads = True
                    t = m.blocks[x].term
                    if t.kind == "call" and any(E.mentions_field(fc.arg(t, i), "equivalence_hash") for i in range(len(t.args))):
                        reads = True
                adder(rep, b)("R39i", "%s: a member type identified by hash is compared or resolved, not accepted unconditionally" % name, reads,
                              "%s is assignable from every %s without looking at the hashes — made on the kind of the identifier alone: "
                              "T1 { Inner1 x } is assignable from T2 { Inner2 x } for unrelated Inner1 / Inner2, while decoding a T2 sample as T1 "
                              "yields other values or fails" % (name, name))
    rep.floor("R39b", narms, 30, "TypeIdentifier kinds")
    # ---- R39c
    want = {
        "process_discovered_readers": (("discovered_type_representation",), ("type_support",), ("dds_subscription_data", "type_consistency"),
                                       "discovered reader (receiver) / local writer (argument) / discovered reader's policy"),
        "process_discovered_writers": (("type_support",), ("discovered_type_representation",), ("data_reader_list", "type_consistency"),
                                       "local reader (receiver) / discovered writer (argument) / local reader's policy"),
    }
    nsites = 0
    for b in fx.bodies.values():
        if not b.is_fn_like() or b.item_name not in want or "discovery_methods" not in b.sname:
            continue
        fc = FnCtx(b)
        recv, argf, pol, desc = want[b.item_name]
        for bb, t in fc.mir.calls():
            if t.callee.indirect or t.callee.method() != "is_assignable_from_w_type_consistency" or len(t.args) != 3:
                continue
            nsites += 1
            a0, a1, a2 = fc.arg(t, 0), fc.arg(t, 1), fc.arg(t, 2)
            ok0 = all(E.mentions_field(a0, f) for f in recv) and not any(E.mentions_field(a0, f) for f in argf)
            ok1 = all(E.mentions_field(a1, f) for f in argf) and not any(E.mentions_field(a1, f) for f in recv)
            ok2 = all(E.mentions_field(a2, f) for f in pol)
            adder(rep, b)("R39c", "%s: reader_type.is_assignable_from(writer_type, reader's policy) — %s" % (b.item_name, desc), ok0 and ok1 and ok2,
                          "receiver from %s: %s; argument from %s: %s; policy from %s: %s — receiver: %s | argument: %s | policy: %s" % (
                              "/".join(recv), ok0, "/".join(argf), ok1, "/".join(pol), ok2, fc.show(a0)[-70:], fc.show(a1)[-70:], fc.show(a2)[-70:]), t.line)
    rep.floor("R39c", nsites, 2, "matching call sites of is_assignable_from_w_type_consistency")
    # ---- R39d / R39e / R39f (shared with C09)
    c09.check_object_extent(fx, rep, "R39d", "R39e", "R39f")
    # ---- R39g
    fs = [b for b in fx.bodies.values() if b.is_fn_like() and b.item_name == "deserialize_fstruct_type" and (c09.DES + "::") in b.sname]
    rep.floor("R39g", len(fs), 1, "deserialize_fstruct_type")
    for b in fs:
        fc = FnCtx(b)
        m = fc.mir
        oks = [bb for bb, i, s in m.stmts() if s.kind == "assign" and s.lhs.local == 0 and not s.lhs.proj and s.rv is not None and s.rv.kind == "aggregate"
               and str(s.rv.agg.get("variant", "")) == "Ok" and not m.blocks[bb].cleanup]
        mem = [(bb, t) for bb, t in m.calls() if not t.callee.indirect and t.callee.method() in ("deserialize_fmember", "deserialize_nopt_fmember", "deserialize_value")]
        good, why = False, "no member decoding call found"

        def is_eq_with(e, names):
            return e[0] == "call" and e[1].endswith("::eq") and any(E.strip_casts(x)[0] == "adt" and E.strip_casts(x)[2] in names for x in e[2])

        def is_ned_test(e, bb):
            if e[0] != "call" or not e[1].endswith("::eq") or len(e[2]) != 2:
                return False
            sides = [E.strip_casts(x) for x in e[2]]
            return any(x[0] == "adt" and x[2] == "Err" and x[3] and x[3][0][0] == "adt" and x[3][0][2] == "NotEnoughData" for x in sides) and \
                any(x[0] == "call" and x[3] == bb for x in sides)

        def leaves_quietly(e):
            # edges that belong to `?` (error propagation) or to the loop's own iteration are not the quiet exit
            return e[0] == "discr" and e[1][0] == "call" and (e[1][1].endswith("Try::branch") or e[1][1].endswith("Iterator::next"))
        for bb, t in mem:
            # the quiet exit: a path from the member decoding to `Ok` that passes neither a `?` nor the loop's iterator
            quiet = fc.reach_avoiding(oks, lambda e, o, c=None: leaves_quietly(e), start=bb)
            if not quiet:
                why = "no path from the member decoding in bb%d to a successful return other than through `?` or the end of the loop" % bb
                continue
            not_ned = fc.reach_avoiding(oks, lambda e, o, c=None: leaves_quietly(e) or (o == "true" and is_ned_test(e, bb)), start=bb)
            not_tol = fc.reach_avoiding(oks, lambda e, o, c=None: leaves_quietly(e) or (o == "true" and is_eq_with(e, ("Appendable", "UseDefault"))), start=bb)
            via_app = fc.reach_avoiding(oks, lambda e, o, c=None: leaves_quietly(e) or (o == "true" and is_eq_with(e, ("UseDefault",))), start=bb)
            if not not_ned and not not_tol and via_app:
                good = True
            else:
                why = ("quiet exit from the member decoding in bb%d: taken without the result being Err(NotEnoughData): %s; taken for a type that is neither "
                       "appendable nor use-default: %s; taken for appendable types: %s" % (bb, bool(not_ned), bool(not_tol), bool(via_app)))
        adder(rep, b)("R39g", "appendable: a member that finds no more data ends the decoding successfully (remaining members keep their defaults)", good,
                      why + " — a reader whose appendable type has more members than the writer's cannot decode the writer's samples")
    # ---- R39h
    mm = c09.impl_fns(fx, c09.DES, 1, "deserialize_mmember") + c09.impl_fns(fx, c09.DES, 2, "deserialize_mmember")
    rep.floor("R39h", len(mm), 2, "deserialize_mmember implementations")
    for b in mm:
        fc = FnCtx(b)
        m = fc.mir
        seeks = [(bb, t) for bb, t in m.calls() if not t.callee.indirect and t.callee.method() == "seek_to_pid"]
        saved = set()
        for bb, i, s in m.stmts():
            if s.kind == "assign" and not s.lhs.proj and s.rv is not None and s.rv.kind == "use" and E.mentions_field(fc.rv_expr(s), "pos") and m.locals[s.lhs.local] == "usize":
                saved.add(s.lhs.local)
        restores = []
        for bb, i, s in fc.field_writes("Reader", "pos"):
            src = s.rv.locals_used()
            alias = set(saved)
            for b2, i2, s2 in m.stmts():
                if s2.kind == "assign" and not s2.lhs.proj and s2.rv is not None and s2.rv.kind == "use" and s2.rv.ops and s2.rv.ops[0].place is not None and s2.rv.ops[0].place.local in alias:
                    alias.add(s2.lhs.local)
            if any(u in alias for u in src):
                restores.append(bb)
        ok_restore = bool(seeks) and bool(restores) and all(fc.must_accompany(bb, restores) or not (m.reachable(bb, removed_blocks=restores) & set(m.return_blocks())) for bb, t in seeks)
        ver = "XCDR1" if "EncodingVersion1" in (b.impl_self or "") else "XCDR2"
        adder(rep, b)("R39h", "%s deserialize_mmember: the member is searched from the start of the object (the saved read position is restored on every path after the search)" % ver,
                      ok_restore, "search calls: %d, stores of the saved position: %s — without the restore the next member is searched from where this one "
                      "ended, so members sent in another order than the reader declares them are not found" % (len(seeks), restores))
        # what the function returns on the side where the search failed: only Ok(..) may be assigned to the result there
        result_locals = {0}
        for b2, i2, s2 in m.stmts():
            if s2.kind == "assign" and s2.lhs.local == 0 and not s2.lhs.proj and s2.rv is not None and s2.rv.kind == "use" and s2.rv.ops and s2.rv.ops[0].place is not None \
                    and not s2.rv.ops[0].place.proj:
                result_locals.add(s2.rv.ops[0].place.local)
        bad, sides = [], 0
        for bb, t in seeks:
            if t.dest is None:
                continue
            for sb, ce in fc.ces.items():
                e = ce.expr
                err_t = ok_t = None
                if ce.is_discr() and e[1][0] == "call" and e[1][3] == bb and not e[1][4]:
                    err_t, ok_t = ce.target_for(1), ce.target_for(0)
                elif ce.true_target is not None and e[0] == "call" and e[2] and E.strip_casts(e[2][0])[0] == "call" and E.strip_casts(e[2][0])[3] == bb:
                    if e[1].endswith("::is_ok"):
                        err_t, ok_t = ce.false_target, ce.true_target
                    elif e[1].endswith("::is_err"):
                        err_t, ok_t = ce.true_target, ce.false_target
                if err_t is None:
                    continue
                sides += 1
                # the first value given to the result on every path that starts on the failed-search side
                vals, seen_b, stack = [], set(), [err_t]
                while stack:
                    x = stack.pop()
                    if x in seen_b or m.blocks[x].cleanup:
                        continue
                    seen_b.add(x)
                    got = None
                    for s2 in m.blocks[x].stmts:
                        if s2.kind == "assign" and s2.lhs.local in result_locals and not s2.lhs.proj and s2.rv is not None:
                            got = "Ok" if s2.rv.kind == "aggregate" and str(s2.rv.agg.get("variant", "")) == "Ok" else "other"
                            break
                    t2 = m.blocks[x].term
                    if got is None and t2.kind == "call" and t2.dest is not None and t2.dest.local in result_locals and not t2.dest.proj:
                        got = "other"
                    if got is not None:
                        vals.append(got)
                        continue
                    if t2.kind == "return":
                        vals.append("none")
                    stack.extend(m.succ(x))
                if not vals or set(vals) != {"Ok"}:
                    bad.append((m.blocks[sb].term.line, vals))
        adder(rep, b)("R39h", "%s deserialize_mmember: a member that is not found is not an error (it keeps its default)" % ver, bool(seeks) and sides >= 1 and not bad,
                      "on the side where seek_to_pid failed the function's result is %s (decisions on the search result found: %d): a sample that lacks a member "
                      "the reader declares cannot be decoded" % (bad[:2], sides))
    # ---- R39j
    nzip = 0
    for b in cs:
        fc = FnCtx(b)
        m = fc.mir

        def mutable_edges(param):
            out = []
            for sb, ce in fc.ces.items():
                e = ce.expr
                if ce.true_target is None or e[0] != "call" or not e[1].endswith("::eq"):
                    continue
                txt = [x for x in E.walk(e)]
                if any(x[0] == "named" and str(x[1]).endswith("TYPE_FLAG_IS_MUTABLE") for x in txt) and \
                        any(x[0] == "param" and x[1] == param for x in txt) and not any(x[0] == "param" and x[1] == 3 - param for x in txt):
                    out.append((sb, ce.false_target))
            return out
        for bb, t in m.calls():
            if t.callee.indirect or t.callee.method() != "zip" or len(t.args) != 2:
                continue
            a0, a1 = fc.arg(t, 0), fc.arg(t, 1)
            if not (E.mentions_field(a0, "member_seq") and E.mentions_field(a1, "member_seq")):
                continue
            if {x[1] for a in (a0, a1) for x in E.walk(a) if x[0] == "param"} != {1, 2}:
                continue
            nzip += 1
            e1, e2 = mutable_edges(1), mutable_edges(2)
            ok = bool(e1) and bool(e2) and fc.only_through([bb], e1) and fc.only_through([bb], e2)
            adder(rep, b)("R39j", "members are paired by position only where neither type is mutable", ok,
                          "zip of the two member sequences at line %s is reachable for a mutable type (tests of the MUTABLE flag found: %d / %d): "
                          "mutable types whose common members sit at different positions are compared member against the wrong member" % (t.line, len(e1), len(e2)), t.line)
    rep.floor("R39j", nzip, 1, "positional pairings of the two member sequences")
    # ---- R39k
    from vplib import extract, facts as F
    dfx = F.load_facts([extract.facts_for_derive_cases()])
    nk = 0
    for b in sorted(dfx.bodies.values(), key=lambda x: x.sname):
        if b.item_name != "create_sample" or not b.is_fn_like() or "Evolved" not in (b.impl_self or ""):
            continue
        fc = FnCtx(b)
        m = fc.mir
        nk += 1
        missing_none = []
        for bb, t in m.calls():
            if t.callee.indirect or t.callee.method() != "branch":
                continue
            a = E.strip_casts(fc.arg(t, 0))
            if a[0] == "call" and a[1].endswith("::ok") and a[2] and E.strip_casts(a[2][0])[0] == "call" and E.strip_casts(a[2][0])[1].endswith("::remove_value"):
                idv = E.strip_casts(E.strip_casts(a[2][0])[2][1])
                missing_none.append(idv[1] if idv[0] == "const" else "?")
        short = (b.impl_self or "").split("::")[-1]
        adder(rep, b)("R39k", "%s: a member absent from the dynamic data gets its default in create_sample" % short, not missing_none,
                      "members %s: `remove_value(id).ok()?` — when the writer's type lacks the member create_sample returns None and the typed sample "
                      "carries no data at all (Sample::new maps it to data: None)" % sorted(missing_none))
    rep.floor("R39k", nk, 3, "Evolved*Reader declarations in fixtures/derive_cases")
