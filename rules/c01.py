"""C01 — Reliable delivery (structural necessary conditions only; liveness is not decided).

R01a  reliable acceptance of DATA / DATA_FRAG only for sn == available_changes_max()+1
R01b  every accepted DATA marks the sequence number received
R01c  highest_received_change_sn / highest_acked_seq_num / highest_sent_seq_num only ever grow
R01d  a fresh ACKNACK updates acked/requested sets and triggers repair; every requested and every
      unsent change is answered (DATA, DATA_FRAG or GAP) and highest_sent advances
R01e  a fresh HEARTBEAT updates missing/lost sets and answers with ACKNACK in both reader loops
R01f  repair and first-send DATA respect first_relevant_sample_seq_num (shared with C04)
R01h  every GAP the writer side builds announces a non-empty range that contains its start (shared with C03 R03g)
R05g  a fragment is buffered at most once (shared with C05)
R05a  fragment index base and bound tests of the NACK_FRAG repair path (shared with C05): the last fragment can be re-requested
"""
from rules import rtps_core as R
from rules.common import adder

TECHNIQUE = "MIR path rules: guard dominance (edge removal), must-accompany, monotone-field writes, loop-body coverage over RTPS reader/writer state machines"
ASSUMPTIONS = ["RTPS 2.5 §8.4.9/8.4.12 state machines transcribed as rule text", "liveness / eventual delivery under fault schedules is NOT decided"]


def run(ctx, rep):
    fx = ctx.facts
    b = fx.fn("RtpsStatefulReader", "on_data_submessage")
    n1 = R.acceptance(fx, b, adder(rep, b), frag=False)
    b2 = fx.fn("RtpsStatefulReader", "on_data_frag_submessage")
    n2 = R.acceptance(fx, b2, adder(rep, b2), frag=True)
    rep.floor("R01a", n1["rel"] + n2["rel"], 2, "reliable acceptance sites (DATA push + DATA_FRAG push)")
    nm = R.monotone_fields(fx, rep, [("RtpsWriterProxy", "highest_received_change_sn"),
                                     ("RtpsReaderProxy", "highest_acked_seq_num"),
                                     ("RtpsReaderProxy", "highest_sent_seq_num")])
    rep.floor("R01c", nm, 4, "writes to monotone sequence-number fields")
    b3 = fx.fn("RtpsStatefulWriter", "on_acknack_submessage_received")
    n3 = R.acknack_handler(b3, adder(rep, b3))
    rep.floor("R01d", n3, 4, "ACKNACK handler state updates")
    b4 = fx.fn("RtpsReaderProxy", "write_message_reliable")
    n4 = R.requested_loop(b4, adder(rep, b4), fx=fx)
    n5 = R.unsent_loop(b4, adder(rep, b4), fx=fx)
    rep.floor("R01d-loops", n4 + n5, 2, "requested-changes and unsent-changes loops in write_message_reliable")
    b5 = fx.fn("DcpsDomainParticipant", "handle_heartbeat_submessage")
    ng, counts = R.heartbeat_handler(b5, adder(rep, b5))
    rep.floor("R01e", ng, 2, "heartbeat freshness tests (user readers + builtin readers)")
    for k, v in counts.items():
        rep.floor("R01e-" + k.split("::")[-1], v, 2, "calls to %s in handle_heartbeat_submessage" % k)
    ng = R.periodic_heartbeat_solicits_ack(fx, rep, "R01g")
    rep.floor("R01g", ng, 3, "periodic heartbeat + reader must_send_acknacks sites")
    ngap = R.gap_ranges_nonempty(fx, rep, "R01h")
    rep.floor("R01h", ngap, 6, "GAP constructions on the writer side")
    from rules.c05 import reassembly_order, no_duplicate_fragments
    ndup = no_duplicate_fragments(fx, rep)
    rep.floor("R05g", ndup, 1, "pushes into RtpsWriterProxy::frag_buffer")
    # a NACK_FRAG repair must be able to name every fragment, the last one included (index base + bound tests, shared with C05)
    from rules.c05 import callee_convention, callers
    want, pidx, cb = callee_convention(fx)
    if want in ("B0", "B1"):
        nfr = callers(fx, rep, want, pidx)
        rep.floor("R05a", nfr, 4, "call sites of as_data_frag_submessage")
    nr = reassembly_order(fx, rep)
    rep.floor("R05e", nr, 1, "payload appends in reconstruct_data_from_frag")
    n6 = R.sends_guarded_by_first_relevant(fx, b4, adder(rep, b4), "R01f")
    rep.floor("R01f", n6, 4, "DATA/DATA_FRAG constructions in write_message_reliable")
