"""C28 — Writer instance-management calls honour their documented contract (error-path structure).

R28a  sibling rule over register / unregister / dispose / lookup_instance: each tests `enabled` first
      (NotEnabled), rejects keyless topics (TopicKind::NoKey -> IllegalOperation), and dispose / unregister
      of an unknown instance fail with BadParameter
R28b  register_instance is idempotent: the arm that finds the instance does not add another entry
R28c  the handle returned / looked up is the one computed from the sample's key holder
R28d  write replies NotEnabled before the sample is serialised
"""
from vplib import expr as E
from vplib.facts import Place
from rules.common import FnCtx, cmp_norm, adder

TECHNIQUE = "sibling agreement on guard presence and order (MIR dominance) across the instance-management functions"
ASSUMPTIONS = []


def enabled_guard(fc):
    return fc.guards(lambda ce: "false" if (ce.expr[0] in ("param", "local", "call") and E.mentions_field(ce.expr, "enabled") and ce.true_target is not None) else None)


def nokey_guard(fc):
    def p(ce):
        c = cmp_norm(E.strip_casts(ce.expr))
        if c and any(x[0] == "adt" and x[2] == "NoKey" for x in (c[1], c[2])):
            return {"Eq": "true", "Ne": "false"}.get(c[0])
        return None
    return fc.guards(p)


def check(fx, rep, b, need_badparam, need_nokey=True):
    fc = FnCtx(b)
    m = fc.mir
    add = adder(rep, b)
    ne = [bb for bb, i, s in fc.aggregates("DdsError", "NotEnabled")]
    g = enabled_guard(fc)
    add("R28a", "NotEnabled exactly on the !enabled edge", bool(ne) and bool(g) and fc.only_through(ne, g), "no NotEnabled reply guarded by !enabled")
    # enabled is tested before any other work: every call other than lookups is unreachable when the enabled switch is removed
    sw = [sb for sb, t in g]
    work = [bb for bb, t in fc.calls("KeyHolderData::from_dynamic_data", "get_instance_handle_from_key_holder_data", "serialize", "add_change")]
    add("R28a", "enabled is tested before any key / serialisation work", bool(sw) and all(w not in m.reachable(0, removed_blocks=sw) for w in work),
        "key extraction or serialisation happens before the enabled test")
    if need_nokey:
        il = [bb for bb, i, s in fc.aggregates("DdsError", "IllegalOperation")]
        gk = nokey_guard(fc)
        add("R28a", "keyless topic is rejected with IllegalOperation", bool(il) and bool(gk) and fc.only_through(il, gk),
            "no `TopicKind == NoKey -> IllegalOperation` test (the sibling operations register / unregister / dispose have it)")
    if need_badparam:
        bp = [bb for bb, i, s in fc.aggregates("DdsError", "BadParameter")]
        gn = fc.guards(lambda ce: 0 if (ce.expr[0] == "discr" and E.is_call(ce.expr[1], "Iterator::find") and E.mentions_field(ce.expr[1], "registered_instance_info")) else None)
        # `find(..).ok_or(BadParameter)?` builds the error value before the decision and returns it exactly when nothing was found
        via_ok_or = []
        for bb2, t2 in fc.calls("Option::ok_or", "Option::ok_or_else"):
            a0, a1 = fc.arg(t2, 0), fc.arg(t2, 1)
            if E.is_call(E.strip_casts(a0), "Iterator::find") and E.mentions_field(a0, "registered_instance_info") and \
                    any(x[0] == "adt" and x[2] == "BadParameter" for x in E.walk(a1)):
                via_ok_or.append(bb2)
        ok_bp = bool(bp) and ((bool(gn) and fc.only_through(bp, gn)) or (bool(via_ok_or) and all(any(o in m.reachable(x) for o in via_ok_or) for x in bp)))
        add("R28a", "unknown instance fails with BadParameter", ok_bp, "no BadParameter on the not-registered arm")
    # handle provenance
    ih = fc.calls("get_instance_handle_from_key_holder_data")
    add("R28c", "instance handle is computed from the key holder", bool(ih) and all(E.mentions_call(fc.arg(t, 0), "KeyHolderData::from_dynamic_data") for bb, t in ih),
        "handle not derived from KeyHolderData::from_dynamic_data(sample)")
    return fc


def run(ctx, rep):
    fx = ctx.facts
    n = 0
    for name, bad in (("register_w_timestamp", False), ("unregister_w_timestamp", True), ("dispose_w_timestamp", True)):
        b = fx.fn("DataWriterEntity", name)
        fc = check(fx, rep, b, bad)
        n += 1
        if name == "register_w_timestamp":
            add = adder(rep, b)
            pushes = [bb for bb, t in fc.calls("Vec::push") if E.mentions_field(fc.arg(t, 0), "registered_instance_info")]
            g = fc.guards(lambda ce: 0 if (ce.expr[0] == "discr" and E.is_call(ce.expr[1], "Iterator::find") and E.mentions_field(ce.expr[1], "registered_instance_info")) else None)
            add("R28b", "register adds an entry only when the instance is not yet registered", bool(pushes) and bool(g) and fc.only_through(pushes, g),
                "push reachable on the already-registered arm (register_instance not idempotent)")
            oor = [bb for bb, i, s in fc.aggregates("DdsError", "OutOfResources")]
            add("R28b", "OutOfResources (max_instances) only for an instance that is not yet registered", bool(oor) and bool(g) and fc.only_through(oor, g),
                "the max_instances limit is tested before / independently of the already-registered lookup: registering a known instance again fails once the table is full")
            oks = [fc.rv_expr(s) for bb, i, s in fc.aggregates("Option", "Some")]
            add("R28c", "returned handle is the computed instance handle", any(E.mentions_call(e, "get_instance_handle_from_key_holder_data") for e in oks),
                "Ok(Some(..)) does not carry the key-derived handle")
    # R28e: "is this a keyed topic" is decided by the same walk as the key holder: is_key members at any nesting depth of
    # non-optional structures (the IllegalOperation replies above depend on it)
    tk = [b for b in fx.bodies.values() if b.item_name == "from" and (b.impl_self or "").endswith("TopicKind") and b.is_fn_like() and "key_and_instance_handle" in b.sname]
    rep.floor("R28e", len(tk), 1, "TopicKind::from(&DynamicType)")
    for b in tk:
        fc = FnCtx(b)
        rec = [bb for bb, t in fc.mir.calls() if not t.callee.indirect and (t.callee.res_id == b.id or (t.callee.method() == "from" and (t.callee.trait or "").endswith("From") and "TopicKind" in (fc.mir.locals[t.dest.local] if t.dest is not None else "")))]
        walks = [x for x in fx.bodies.values() if x.item_name == "fill_struct_key_holder_type" and x.is_fn_like()]
        sib_rec = all(any(not t.callee.indirect and t.callee.res_id == w.id for bb, t in FnCtx(w).mir.calls()) for w in walks)
        adder(rep, b)("R28e", "TopicKind::from descends into nested structures like the key-holder walk does", bool(rec) and bool(walks) and sib_rec,
                      "no recursive descent: a key nested more than one level deep makes the topic look keyless (register / dispose / lookup reply IllegalOperation) while the key holder still finds it")
    lk = fx.fn("DcpsDomainParticipant", "lookup_instance")
    check(fx, rep, lk, False)
    n += 1
    lf = FnCtx(lk)
    cmpd = False
    for k in fx.descendants(lk):
        if k.kind.startswith("Closure"):
            kf = FnCtx(k)
            c = cmp_norm(kf.eb.place(Place([0, []])))
            if c and c[0] == "Eq" and (E.mentions_field(c[1], "instance_handle") and E.mentions_field(c[2], "instance_handle")):
                cmpd = True
    adder(rep, lk)("R28c", "lookup compares registered handles with the key-derived handle", cmpd, "no registered_instance_info lookup by instance_handle")
    w = fx.fn("DcpsDomainParticipant", "write_w_timestamp")
    wf = FnCtx(w)
    addw = adder(rep, w)
    g = enabled_guard(wf)
    sw = [sb for sb, t in g]
    ser = [bb for bb, t in wf.calls("serialize", "KeyHolderData::from_dynamic_data")]
    sends = []
    for bb, t in wf.calls("OneshotSender::send"):
        a = wf.arg(t, 1)
        if a[0] == "adt" and a[2] == "Err" and a[3] and a[3][0][0] == "adt" and a[3][0][2] == "NotEnabled":
            sends.append(bb)
    addw("R28d", "write replies NotEnabled on the !enabled edge", bool(sends) and bool(g) and wf.only_through(sends, g), "no NotEnabled reply")
    addw("R28d", "write tests enabled before serialising", bool(sw) and bool(ser) and all(s not in wf.mir.reachable(0, removed_blocks=sw) for s in ser),
         "serialisation happens before the enabled test")
    rep.floor("R28a", n, 4, "instance-management functions")
