"""Shared rule code over DataReaderEntity::add_reader_change / create_sample_collection (C18 C19 C20 C21 C22 C24)."""
from vplib import expr as E
from vplib.facts import path_endswith, Place, short_ty
from rules.common import FnCtx, cmp_norm, adder, variant_value, closure_bodies_in

LIMIT_FIELDS = {"max_samples": "RejectedBySamplesLimit", "max_instances": "RejectedByInstancesLimit",
                "max_samples_per_instance": "RejectedBySamplesPerInstanceLimit"}


def field_of(e):
    if e[0] in ("param", "local") and e[2]:
        return e[2][-1]
    if e[0] == "call" and e[4]:
        return e[4][-1]
    if e[0] == "proj" and e[2]:
        return e[2][-1]
    return None


def on_sample_list(fc, t):
    return bool(t.args) and field_of(fc.arg(t, 0)) == "sample_list"


def insertions(fc):
    return [(bb, t) for bb, t in fc.calls("Vec::insert", "Vec::push") if on_sample_list(fc, t)]


def removals(fc):
    return [(bb, t) for bb, t in fc.calls("Vec::remove", "Vec::swap_remove", "Vec::retain", "Vec::drain", "Vec::pop", "Vec::clear", "Vec::truncate") if on_sample_list(fc, t)]


def limit_of(e):
    """name of the resource limit a comparison operand mentions"""
    for f in LIMIT_FIELDS:
        if E.mentions_field(e, f):
            # max_samples is a prefix of max_samples_per_instance: exact field match
            for s in E.walk(e):
                if s[0] in ("param", "local") and s[2] and s[2][-1] == f:
                    return f
                if s[0] == "call" and s[4] and s[4][-1] == f:
                    return f
    return None


def limit_test(e):
    """(limit field, op with the count on the left) for `count <op> limit` comparisons"""
    c = cmp_norm(E.strip_casts(e))
    if c is None:
        return None
    op, a, b = c
    la, lb = limit_of(a), limit_of(b)
    from vplib.flow import SWAP
    if lb and not la:
        return lb, op
    if la and not lb:
        return la, SWAP[op]
    return None


# ---------------------------------------------------------------------------------------- C21


def c21(facts, rep):
    b = facts.fn("DataReaderEntity", "add_reader_change")
    fc = FnCtx(b)
    add = adder(rep, b)
    by_src = variant_value(facts, "DestinationOrderQosPolicyKind", "BySourceTimestamp")
    by_rcp = variant_value(facts, "DestinationOrderQosPolicyKind", "ByReceptionTimestamp")
    scr = lambda e: E.mentions_field(e, "destination_order")
    ins = [(bb, t) for bb, t in fc.calls("Vec::insert") if on_sample_list(fc, t)]
    psh = [(bb, t) for bb, t in fc.calls("Vec::push") if on_sample_list(fc, t)]
    g_src = fc.discr_arm(scr, by_src)
    g_rcp = fc.discr_arm(scr, by_rcp)
    add("R21", "switch on destination_order.kind", bool(g_src) and bool(g_rcp), "no discriminant switch on qos.destination_order.kind")
    n = 0
    for bb, t in ins:
        n += 1
        add("R21c", "positional insert only on the BySourceTimestamp arm", fc.only_through([bb], g_src), "insert reachable on another arm", t.line)
        idx = fc.arg(t, 1)
        # the index must derive from the list on every path: a search result or len(); a constant default is wrong.
        # `match search { Some(i) => i, None => len }` assigns the index in two places: every definition is classified.
        e0 = E.strip_casts(idx)
        forms = [e0]
        if e0[0] == "local" and not e0[2]:
            ds = fc.mir.whole_defs(e0[1])
            if len(ds) > 1:
                forms = [E.strip_casts(fc._def_expr(d)) for d in ds]
        detail = fc.show(idx)[:200]
        kinds = []
        for e in forms:
            k = None
            if E.is_call(e, "Option::unwrap_or"):
                dflt = E.strip_casts(e[2][1])
                if E.mentions_call(dflt, "Vec::len", "[T]::len", "len") and E.mentions_field(dflt, "sample_list"):
                    k = "search"
                if dflt[0] == "const":
                    detail = "insert position defaults to the constant %s when no stored sample is newer: a sample newer than everything stored is inserted at the front" % dflt[1]
            elif E.is_call(e, "Option::unwrap_or_else", "Option::map_or", "Option::map_or_else"):
                cbs = closure_bodies_in(facts, fc, e)
                if any(cb.calls_any("Vec::len", "[T]::len") for cb in cbs) or E.mentions_call(e, "Vec::len"):
                    k = "search"
            elif E.is_call(e, "partition_point", "binary_search_by", "binary_search_by_key"):
                k = "search"
            elif E.is_call(e, "Iterator::position") and e[4] and e[4][0] == "as Some":
                k = "search"        # the Some payload of the search
            elif E.is_call(e, "Vec::len", "[T]::len") or (e[0] == "un" and e[1] == "PtrMetadata"):
                k = "len" if E.mentions_field(e, "sample_list") else None
            elif e[0] == "const":
                detail = "insert position is the constant %s on one path: a sample newer than everything stored is inserted at the front" % e[1]
            kinds.append(k)
        ok = all(k is not None for k in kinds) and "search" in kinds
        e = ("agg", "tuple", tuple(forms), ())
        add("R21a", "insert position always derives from the stored list (search result or len)", ok and E.mentions_field(e, "sample_list"), detail, t.line)
        # R21b: predicate compares stored source_timestamp > new one
        okp = False
        for cb in closure_bodies_in(facts, fc, e):
            kf = FnCtx(cb)
            ret = kf.eb.place(Place([0, []]))
            c = cmp_norm(ret)
            if c and E.mentions_field(c[1], "source_timestamp") and E.mentions_field(c[2], "source_timestamp"):
                # first argument is the closure's element (param 2), second the captured new sample
                stored_left = c[1][0] == "param" and c[1][1] == 2
                op = c[0] if stored_left else {"Gt": "Lt", "Lt": "Gt", "Ge": "Le", "Le": "Ge"}.get(c[0], c[0])
                okp = op == "Gt"
                if not okp:
                    add("R21b", "search predicate is stored.source_timestamp > new.source_timestamp", False,
                        "predicate is `stored %s new`: %s" % (op, "equal stamps are reordered" if op == "Ge" else "wrong direction"), cb.line)
        add("R21b", "position search compares source timestamps (first stored sample newer than the new one)", okp, "no such predicate", t.line)
        # R21d: the position is searched in the list as it is at insertion time: no element is removed between the search and the insert
        srch = [x[3] for x in E.walk(e) if x[0] == "call" and x[1].endswith(("Iterator::position", "partition_point")) and isinstance(x[3], int)]
        rem_blocks = [rb for rb, _ in removals(fc)]
        stale = [rb for sb in srch for rb in rem_blocks if rb in fc.mir.reachable(sb) and bb in fc.mir.reachable(rb)]
        add("R21d", "insert position is searched after the KEEP_LAST eviction (no removal between search and insert)", bool(srch) and not stale,
            "a sample is removed from sample_list after the insert position was computed: the remembered index is one too large when the evicted sample sat in front of it", t.line)
    for bb, t in psh:
        add("R21c", "plain append only on the ByReceptionTimestamp arm", fc.only_through([bb], g_rcp), "push reachable on the BySourceTimestamp arm", t.line)
    return n, len(psh)


def reason_sites(fc):
    """[(bb, reason variant, line)]: statements that name a SampleRejectedStatusKind variant — directly inside
    AddChangeResult::Rejected(..) or on its way there (`let reason = if .. { Some(A) } ..; return Rejected(h, reason)`)"""
    out = []
    seen = set()
    for bb, i, s in fc.mir.stmts():
        if s.kind != "assign" or s.rv is None or s.rv.kind not in ("aggregate", "use"):
            continue
        for x in E.walk(fc.rv_expr(s)):
            if x[0] == "adt" and str(x[1]).endswith("SampleRejectedStatusKind") and (bb, x[2]) not in seen:
                seen.add((bb, x[2]))
                out.append((bb, x[2], s.line))
    return out


# ---------------------------------------------------------------------------------------- C18


def c18(facts, rep):
    b = facts.fn("DataReaderEntity", "add_reader_change")
    fc = FnCtx(b)
    m = fc.mir
    add = adder(rep, b)
    kl = variant_value(facts, "HistoryQosPolicyKind", "KeepLast")
    hist_sw = [bb for bb, ce in fc.ces.items() if ce.expr[0] == "discr" and E.mentions_field(ce.expr[1], "history")]
    add("R18", "switch on qos.history.kind present", bool(hist_sw), "no discriminant switch on history.kind")
    n = 0
    # R18a: the depth-related rejections are decided only after the KEEP_LAST decision
    for bb, rname, line in reason_sites(fc):
        if rname in ("RejectedBySamplesPerInstanceLimit", "RejectedBySamplesLimit"):
            n += 1
            ok = bool(hist_sw) and bb not in m.reachable(0, removed_blocks=hist_sw)
            add("R18a", "%s is decided only after the KEEP_LAST eviction decision" % rname, ok,
                "the limit is tested before history.kind is looked at: with KEEP_LAST(depth) and max_samples_per_instance == depth "
                "(or max_samples reached by this instance) a new sample is rejected instead of replacing the oldest one", line)
    # R18b/c: eviction only for KEEP_LAST with full depth, removes the oldest alive sample of the instance
    rem = removals(fc)

    def full(ce):
        c = cmp_norm(ce.expr)
        if c is None:
            return None
        op, a, d = c
        da = E.mentions_field(a, "as KeepLast") or E.mentions_local_named(fc.mir, a, "depth")
        dd = E.mentions_field(d, "as KeepLast") or E.mentions_local_named(fc.mir, d, "depth")
        ca = E.mentions_call(a, "Iterator::count")
        cd = E.mentions_call(d, "Iterator::count")
        if (da and cd) or (dd and ca):
            if op == "Eq":
                return "true"
            if (da and op == "Le") or (dd and op == "Ge"):
                return "true"
        return None
    g_full = fc.guards(full)
    g_kl = fc.discr_arm(lambda e: E.mentions_field(e, "history"), kl)
    for bb, t in rem:
        add("R18c", "samples are evicted only for KEEP_LAST histories", bool(g_kl) and fc.only_through([bb], g_kl), "removal reachable for KEEP_ALL", t.line)
        add("R18b", "eviction only when the instance holds `depth` alive samples", bool(g_full) and fc.only_through([bb], g_full),
            "removal not guarded by depth == alive samples of the instance", t.line)
        idx = fc.arg(t, 1) if len(t.args) > 1 else None
        okp = False
        if idx is not None and E.mentions_call(idx, "Iterator::position"):
            for cb in closure_bodies_in(facts, fc, idx):
                kf = FnCtx(cb)
                txt = kf.show(kf.eb.place(Place([0, []])))
                calls = [kf.eb.call(t2, b2, 0) for b2, t2 in kf.mir.calls()]
                has_inst = any(E.mentions_field(c, "instance_handle") for c in calls)
                has_alive = any(any(x[0] == "adt" and x[2] == "Alive" for x in E.walk(c)) for c in calls)
                okp = okp or (has_inst and has_alive)
        add("R18b", "evicted sample is the first (oldest) alive sample of the same instance", okp,
            "remove index is not position(|s| s.instance_handle == new.instance_handle && s.kind == Alive)", t.line)
    # R18d: the per-instance count that decides RejectedBySamplesPerInstanceLimit / RejectedBySamplesLimit is taken after the eviction
    nlim = 0
    for sb, ce in fc.ces.items():
        c = cmp_norm(E.strip_casts(ce.expr))
        exprs = [c[1], c[2]] if c else [ce.expr]
        if not any(E.mentions_field(x, "max_samples_per_instance") or E.mentions_field(x, "max_samples") for x in exprs):
            continue
        cnt_blocks = [x[3] for y in exprs for x in E.walk(y) if x[0] == "call" and (x[1].endswith("Iterator::count") or x[1].endswith("::len")) and isinstance(x[3], int)]
        # a comparison stored in a bool local: follow its definition
        for y in exprs:
            y0 = E.strip_casts(y)
            if y0[0] == "local" and not y0[2]:
                for d in m.whole_defs(y0[1]):
                    de = fc._def_expr(d)
                    cnt_blocks += [x[3] for x in E.walk(de) if x[0] == "call" and x[1].endswith("Iterator::count") and isinstance(x[3], int)]
        for cb in cnt_blocks:
            nlim += 1
            late = [bb for bb, _ in rem if bb in m.reachable(cb)]
            add("R18d", "the sample count compared with the resource limit is taken after the KEEP_LAST eviction", not late,
                "the count is computed before the oldest sample is evicted: with max_samples_per_instance == depth the new sample evicts the oldest one and is then rejected",
                m.blocks[cb].term.line)
    rep.floor("R18d", nlim, 1, "sample counts compared with resource limits")
    for (sb, tgt) in g_full:
        rb = [bb for bb, _ in rem]
        rets = set(m.return_blocks())
        add("R18b", "a full KEEP_LAST instance always evicts before inserting", bool(rb) and not (m.reachable(tgt, removed_blocks=rb) & rets),
            "depth == alive samples but a path reaches the end without removing the oldest sample")
    return n, len(rem)


# ---------------------------------------------------------------------------------------- C19 (reader part)


def c19_reader(facts, rep):
    b = facts.fn("DataReaderEntity", "add_reader_change")
    fc = FnCtx(b)
    add = adder(rep, b)
    ins = insertions(fc)
    n = 0
    for lim in LIMIT_FIELDS:
        def guard(e, outcome, ce, lim=lim):
            lt = limit_test(e)
            if lt and lt[0] == lim:
                f, op = lt
                if op in ("Eq", "Ge") and outcome == "false":
                    return True
                if op in ("Lt", "Ne") and outcome == "true":
                    return True
            if lim == "max_instances":
                e0 = E.strip_casts(e)
                if E.is_call(e0, "[T]::contains", "Vec::contains") and outcome == "true" and E.mentions_field(e0, "instance_handle"):
                    return True   # the instance is already known: no new instance is created
            return False
        found = fc.reach_avoiding([bb for bb, _ in ins], guard)
        for bb, t in ins:
            n += 1
            add("R19a", "insertion only when %s is not reached" % lim, bb not in found,
                "sample_list insertion reachable without the negative edge of the %s test; witness %s" % (lim, found.get(bb)), t.line)
    # R19b: each rejection reason behind the true edge of the matching test
    nr = 0
    has_rejected = bool(fc.aggregates("AddChangeResult", "Rejected"))
    for bb, rname, sline in (reason_sites(fc) if has_rejected else []):
        lim = [k for k, v in LIMIT_FIELDS.items() if v == rname]
        nr += 1
        if not lim:
            add("R19b", "rejection reason is one of the three limits", False, "reason %s" % rname, sline)
            continue

        def guard(e2, outcome, ce, lim=lim[0]):
            lt = limit_test(e2)
            if lt and lt[0] == lim:
                f, op = lt
                return (op in ("Eq", "Ge", "Gt") and outcome == "true") or (op in ("Lt", "Ne", "Le") and outcome == "false")
            return False
        found = fc.reach_avoiding([bb], guard)
        add("R19b", "Rejected(%s) only when the %s test is positive" % (rname, lim[0]), bb not in found,
            "rejection with this reason reachable without its own limit test; witness %s" % found.get(bb), sline)
    # R19c: the instances that count against max_instances are all instances with a stored sample, whatever its kind
    nm = 0
    for bb, t in fc.calls("Iterator::map"):
        a0 = fc.arg(t, 0)
        if not E.mentions_field(a0, "sample_list"):
            continue
        cbs = closure_bodies_in(facts, fc, fc.eb.call(t, bb, 0))
        if not any(cb.mir.locals[0].endswith("InstanceHandle") for cb in cbs):
            continue
        nm += 1
        add("R19c", "distinct instances are counted over every stored sample (no filter on the sample kind)", not E.mentions_call(a0, "Iterator::filter"),
            "the instance count for max_instances skips some stored samples (%s): an instance holding only dispose / unregister samples no longer counts and a further instance is admitted" % fc.show(a0)[:120], t.line)
    rep.floor("R19c", nm, 1, "distinct-instance enumerations over sample_list")
    return n, nr
