"""Shared rule code for the RTPS reliability core (C01, C02, C04, C05)."""
from vplib import expr as E
from vplib.facts import path_endswith, AnchorError
from vplib.flow import SWAP
from rules.common import FnCtx, cmp_norm, variant_value, adder, nonempty_range_exit_edges

OPS = {"Eq": lambda a, b: a == b, "Ne": lambda a, b: a != b, "Lt": lambda a, b: a < b, "Le": lambda a, b: a <= b,
       "Gt": lambda a, b: a > b, "Ge": lambda a, b: a >= b}
DS = range(-3, 4)


def is_sn(e):
    e = E.strip_casts(e)
    return E.is_call(e, "DataSubmessage::writer_sn", "DataFragSubmessage::writer_sn") or \
        (e[0] in ("param", "local") and False)


def expected_offset(e):
    """0 if e == available_changes_max()+1 ; -1 if e == available_changes_max() ; None otherwise"""
    e = E.arith_norm(E.strip_casts(e))
    if E.is_call(e, "RtpsWriterProxy::available_changes_max"):
        return -1
    if e[0] == "bin" and e[1] == "Add":
        a, b = e[2], e[3]
        for x, y in ((a, b), (b, a)):
            if E.is_call(E.strip_casts(x), "RtpsWriterProxy::available_changes_max") and y[0] == "const":
                return -1 + y[1]
    return None


def admitted_expr(e):
    """admitted() for a bare condition expression (the effective condition of a switch on a stored verdict)"""
    c = cmp_norm(E.strip_casts(e))
    if c is None:
        return None
    op, a, b = c
    if is_sn(a) and expected_offset(b) is not None:
        off = expected_offset(b)
    elif is_sn(b) and expected_offset(a) is not None:
        off = expected_offset(a)
        op = SWAP[op]
    else:
        return None
    return frozenset(d for d in DS if OPS[op](d, off)), frozenset(d for d in DS if not OPS[op](d, off))


def admitted(ce):
    """For a comparison between the received sequence number and the expected one, the sets of
    d = sn - expected (d in -3..3) admitted on the true and false edges; else None."""
    c = cmp_norm(ce.expr)
    if c is None or ce.true_target is None:
        return None
    op, a, b = c
    if is_sn(a) and expected_offset(b) is not None:
        off = expected_offset(b)
    elif is_sn(b) and expected_offset(a) is not None:
        off = expected_offset(a)
        op = SWAP[op]
    else:
        return None
    t = frozenset(d for d in DS if OPS[op](d, off))
    f = frozenset(d for d in DS if not OPS[op](d, off))
    return t, f


def reliability_scrutinee(e):
    e = E.strip_casts(e)
    if e[0] in ("param", "local") and e[2][-1:] == ("reliability",):
        return True
    return E.is_call(e, "RtpsStatefulReader::reliability", "reliability")


def acceptance(facts, body, add, frag):
    """R01a/R02a (+R01b/R02b for DATA): acceptance test of the stateful reader."""
    fc = FnCtx(body)
    m = fc.mir
    if frag:
        events = fc.calls("RtpsWriterProxy::push_data_frag")
        evname = "push_data_frag"
    else:
        events = [(bb, t) for bb, t in fc.calls("Vec::push")
                  if (lambda a: a[0] == "param" and a[1] == 1 and a[2][-1:] == ("changes",))(fc.arg(t, 0))]
        evname = "self.changes.push"
    rel = variant_value(facts, "ReliabilityKind", "Reliable")
    be = variant_value(facts, "ReliabilityKind", "BestEffort")
    n = {"rel": 0, "be": 0}
    for kind, val, want, rule in (("rel", rel, frozenset({0}), "R01a"), ("be", be, frozenset({0, 1, 2, 3}), "R02a")):
        other = fc.discr_other_arms(reliability_scrutinee, val)
        if not other:
            add(rule, "switch on reader reliability present", False, "no discriminant switch on the reader's reliability found")
            continue
        guards = []
        for bb, ce in fc.ces.items():
            ad = admitted(ce)
            if ad is None:
                continue
            if ad[0] == want:
                guards.append((bb, ce.true_target))
            if ad[1] == want:
                guards.append((bb, ce.false_target))
        ev_blocks = [bb for bb, t in events]

        # paths that stay on this reliability arm (also when the arm only computes a verdict that is tested after the match)
        def other_arm(e, outcome, ce2=None, val=val):
            # (the `otherwise` edge of a two-variant switch is also asked with the variant it stands for)
            return e[0] == "discr" and reliability_scrutinee(e[1]) and outcome != "otherwise" and outcome != val

        def other_arm_or_test(e, outcome, ce2=None, val=val, want=want):
            if other_arm(e, outcome, ce2):
                return True
            ad = admitted_expr(e)
            if ad is not None and outcome in ("true", "false"):
                return (ad[0] if outcome == "true" else ad[1]) == want
            return False
        in_arm = sorted(fc.reach_avoiding(ev_blocks, other_arm))
        unguarded = fc.reach_avoiding(ev_blocks, other_arm_or_test)
        n[kind] = len(in_arm)
        for bb in in_arm:
            ok = bb not in unguarded
            t = m.blocks[bb].term
            seen = [fc.show(ce.expr) for ce in fc.ces.values() if admitted(ce) is not None]
            add(rule, "%s on the %s arm guarded by sn %s expected" % (evname, "Reliable" if kind == "rel" else "BestEffort", "==" if kind == "rel" else ">="),
                ok, "acceptance reachable without the required sequence-number test; sequence tests present: %s" % seen, t.line)
            if not frag:
                rcs = [b2 for b2, t2 in fc.calls("RtpsWriterProxy::received_change_set") if is_sn(fc.arg(t2, 1))]
                ok2 = fc.must_accompany(bb, rcs)
                add("R01b" if kind == "rel" else "R02b", "received_change_set(sn) accompanies the push (%s arm)" % kind, ok2,
                    "a path stores the change without marking the sequence number received (it would be accepted again)", t.line)
    return n


def frag_reassembly_goes_through_data(body, add):
    """R02d: the reassembled DATA is fed to on_data_submessage (same guards), never pushed directly."""
    fc = FnCtx(body)
    direct = [(bb, t) for bb, t in fc.calls("Vec::push")
              if (lambda a: a[0] == "param" and a[1] == 1 and a[2][-1:] == ("changes",))(fc.arg(t, 0))]
    for bb, t in direct:
        add("R02d", "no direct push of reassembled data", False, "on_data_frag_submessage pushes onto self.changes directly", t.line)
    calls = fc.calls("RtpsStatefulReader::on_data_submessage")
    ok = False
    for bb, t in calls:
        a = fc.arg(t, 1)
        if E.mentions_call(a, "RtpsWriterProxy::reconstruct_data_from_frag"):
            ok = True
    add("R02d", "reassembled DATA goes through on_data_submessage", ok,
        "no call on_data_submessage(reconstruct_data_from_frag(..)) found")
    return len(calls)


def monotone_fields(facts, rep, table):
    """R01c: every write to a monotone field is guarded by new > old."""
    n = 0
    for b in facts.bodies.values():
        if not (b.kind in ("Fn", "AssocFn") or b.kind.startswith("Closure")):
            continue
        if not any(b.writes_field(adt, field) for adt, field in table):
            continue
        fc = None
        for (adt, field) in table:
            m = b.mir
            hits = []
            for bb, i, s in m.stmts():
                if s.kind == "assign" and s.lhs.proj and s.lhs.proj[-1][0] == "field":
                    p = s.lhs.proj[-1]
                    if p[4] == field and path_endswith(p[2], adt):
                        hits.append((bb, i, s))
            if not hits:
                continue
            fc = fc or FnCtx(b)
            for bb, i, s in hits:
                n += 1
                val = fc.rv_expr(s)

                def pred(op, a, c, val=val, field=field):
                    def is_old(x):
                        x = E.strip_casts(x)
                        return x[0] in ("param", "local") and x[2][-1:] == (field,)
                    if E.same(a, val) and is_old(c):
                        return {"Gt": "true", "Le": "false"}.get(op)
                    if E.same(c, val) and is_old(a):
                        return {"Lt": "true", "Ge": "false"}.get(op)
                    return None
                g = fc.cmp_guards(pred)
                ok = fc.only_through([bb], g)
                rep.add("R01c", b.sname, "write to %s.%s guarded by new > old" % (adt, field), ok,
                        "field can be lowered: assigned %s without a dominating `new > old` test" % fc.show(val), b.loc(s.line))
    return n


def posts(fc, start_block, call_blocks):
    """all entry->exit paths from start_block pass one of call_blocks"""
    m = fc.mir
    rets = set(m.return_blocks())
    return not (m.reachable(start_block, removed_blocks=call_blocks) & rets) and start_block not in rets


def acknack_handler(body, add):
    """R01d (first half): a fresh ACKNACK updates acked/requested/count and triggers repair."""
    fc = FnCtx(body)

    def pred(op, a, b):
        fresh_l = E.mentions_call(a, "AckNackSubmessage::count") and E.mentions_call(b, "RtpsReaderProxy::last_received_acknack_count")
        fresh_r = E.mentions_call(b, "AckNackSubmessage::count") and E.mentions_call(a, "RtpsReaderProxy::last_received_acknack_count")
        if fresh_l:
            return {"Gt": "true", "Le": "false"}.get(op)
        if fresh_r:
            return {"Lt": "true", "Ge": "false"}.get(op)
        return None
    g = fc.cmp_guards(pred)
    add("R01d", "freshness test count > last_received_acknack_count present", bool(g), "no such comparison in the ACKNACK handler")
    n = 0
    for name, argcheck in (("RtpsReaderProxy::acked_changes_set", lambda a: a[0] == "bin" and a[1] == "Sub" and E.mentions_call(a[2], "SequenceNumberSet::base") and a[3] == ("const", 1)),
                           ("RtpsReaderProxy::requested_changes_set", lambda a: E.mentions_call(a, "SequenceNumberSet::set")),
                           ("RtpsReaderProxy::set_last_received_acknack_count", lambda a: E.mentions_call(a, "AckNackSubmessage::count")),
                           ("RtpsReaderProxy::write_message_reliable", None)):
        cs = fc.calls(name)
        n += len(cs)
        add("R01d", "%s called in the ACKNACK handler" % name.split("::")[-1], bool(cs), "call missing")
        for bb, t in cs:
            add("R01d", "%s only on a fresh ACKNACK" % name.split("::")[-1], fc.only_through([bb], g),
                "reachable without count > last_received_acknack_count (a duplicated/reordered ACKNACK would be processed)", t.line)
            if argcheck is not None:
                a = E.arith_norm(E.strip_casts(fc.arg(t, 1)))
                add("R01d", "%s argument" % name.split("::")[-1], argcheck(a), "unexpected argument %s" % fc.show(a), t.line)
        for (gb, gt) in g:
            add("R01d", "fresh ACKNACK always reaches %s" % name.split("::")[-1], posts(fc, gt, [bb for bb, _ in cs]),
                "a path from the freshness test to the function exit skips it", fc.mir.blocks[gb].term.line)
    return n


def requested_loop(body, add, fx=None):
    """R01d (second half): in write_message_reliable every requested change leads to a send."""
    fc = FnCtx(body)
    m = fc.mir
    heads = fc.calls("RtpsReaderProxy::next_requested_change")
    sends = [bb for bb, t in (fc.calls_through(fx, "WriteMessage::write_message") if fx is not None else fc.calls("WriteMessage::write_message"))]
    n = 0
    for hb, ht in heads:
        # Some-edge of the switch on the result
        some = None
        for bb, ce in fc.ces.items():
            if ce.expr[0] == "discr" and ce.expr[1][0] == "call" and ce.expr[1][3] == hb and not ce.expr[1][4]:
                some = ce.target_for(1)
        if some is None:
            add("R01d", "requested-changes loop has a Some arm", False, "cannot find the switch on next_requested_change()", ht.line)
            continue
        n += 1
        back = hb in m.reachable(some, removed_blocks=sends)
        add("R01d", "every requested change is answered (DATA, DATA_FRAG or GAP)", not back,
            "a path through the requested-changes loop body returns to the loop head without write_message: the request is silently dropped", ht.line)
    return n


def unsent_loop(body, add, rule="R01d", fx=None):
    """first-send loop: every unsent change leads to a send and to set_highest_sent_seq_num."""
    fc = FnCtx(body)
    m = fc.mir
    heads = fc.calls("RtpsReaderProxy::next_unsent_change")
    sends = [bb for bb, t in (fc.calls_through(fx, "WriteMessage::write_message") if fx is not None else fc.calls("WriteMessage::write_message"))]
    marks = [bb for bb, t in (fc.calls_through(fx, "RtpsReaderProxy::set_highest_sent_seq_num") if fx is not None else fc.calls("RtpsReaderProxy::set_highest_sent_seq_num"))]
    n = 0
    for hb, ht in heads:
        some = None
        for bb, ce in fc.ces.items():
            if ce.expr[0] == "discr" and ce.expr[1][0] == "call" and ce.expr[1][3] == hb and not ce.expr[1][4]:
                some = ce.target_for(1)
        if some is None:
            continue
        # is this call a loop head?  (hb reachable from some)
        if hb not in m.reachable(some):
            continue
        n += 1
        infeasible = nonempty_range_exit_edges(fc)
        add(rule, "every unsent change is sent or gapped", hb not in m.reachable(some, removed_blocks=sends, removed_edges=infeasible),
            "a path through the unsent-changes loop returns to the head without write_message", ht.line)
        add(rule, "highest_sent_seq_num advanced for every unsent change", hb not in m.reachable(some, removed_blocks=marks),
            "a path through the unsent-changes loop does not advance highest_sent_seq_num (livelock or resend)", ht.line)
    return n


def heartbeat_handler(body, add):
    """R01e: a fresh HEARTBEAT updates the proxy and answers with ACKNACK, in both reader loops."""
    fc = FnCtx(body)

    def pred(op, a, b):
        l = E.mentions_call(a, "RtpsWriterProxy::last_received_heartbeat_count") and E.mentions_call(b, "HeartbeatSubmessage::count")
        r = E.mentions_call(b, "RtpsWriterProxy::last_received_heartbeat_count") and E.mentions_call(a, "HeartbeatSubmessage::count")
        if l:
            return {"Lt": "true", "Ge": "false"}.get(op)
        if r:
            return {"Gt": "true", "Le": "false"}.get(op)
        return None
    g = fc.cmp_guards(pred)
    table = (("RtpsWriterProxy::set_last_received_heartbeat_count", "HeartbeatSubmessage::count"),
             ("RtpsWriterProxy::missing_changes_update", "HeartbeatSubmessage::last_sn"),
             ("RtpsWriterProxy::lost_changes_update", "HeartbeatSubmessage::first_sn"),
             ("RtpsWriterProxy::set_must_send_acknacks", None),
             ("RtpsWriterProxy::write_message", None))
    counts = {}
    for name, argsrc in table:
        cs = fc.calls(name)
        counts[name] = len(cs)
        short = name.split("::")[-1]
        for bb, t in cs:
            add("R01e", "%s only on a fresh HEARTBEAT" % short, fc.only_through([bb], g),
                "reachable without last_received_heartbeat_count < count", t.line)
            if argsrc:
                a = fc.arg(t, 1)
                add("R01e", "%s argument comes from %s" % (short, argsrc.split("::")[-1]), E.mentions_call(a, argsrc),
                    "argument is %s" % fc.show(a), t.line)
        for (gb, gt) in g:
            # within the iteration: from the guard's true target, reaching any *other* guard block or the exit requires the call
            m = fc.mir
            blocks = [bb for bb, _ in cs]
            r = m.reachable(gt, removed_blocks=blocks)
            escapes = (r & set(m.return_blocks())) or (gb in r)
            add("R01e", "fresh HEARTBEAT always reaches %s" % short, not escapes,
                "a path from the freshness test skips %s" % short, m.blocks[gb].term.line)
    return len(g), counts


def closure_requires(facts, closure_body, want, parent_fc=None):
    """True iff the (bool) closure can return true only when comparison `want(op,a,b)->'true'|'false'` holds.
    Implementation: every assignment to _0 is `const false`, is the comparison itself, or sits behind its guard.
    The comparison may have been evaluated in the parent and captured as a bool (`let relevant = sn > first; find(|c| relevant && ..)`)."""
    fc = FnCtx(closure_body)
    m = fc.mir
    g = fc.cmp_guards(want)
    good = set()
    if parent_fc is not None:
        from rules.common import closure_env
        env = closure_env(parent_fc, closure_body)
        for name, pe in env.items():
            c = cmp_norm(E.strip_casts(pe))
            if c is not None and (want(*c) == "true" or want(SWAP[c[0]], c[2], c[1]) == "true"):
                good.add(name)
        if good:
            def captured_true(ce):
                e = E.strip_casts(ce.expr)
                if ce.true_target is not None and e[0] == "param" and e[1] == 1 and e[2] and e[2][0] in good:
                    return "true"
                return None
            g = g + fc.guards(captured_true)
    good_names = set(good)
    ok = True
    any_def = False
    for bb, i, s in m.stmts():
        if s.kind == "assign" and s.lhs.is_local() and s.lhs.local == 0:
            any_def = True
            e = fc.rv_expr(s)
            if e == ("const", 0):
                continue
            e1 = E.strip_casts(e)
            if e1[0] == "param" and e1[1] == 1 and e1[2] and e1[2][0] in good_names:
                continue          # the closure's value is the captured comparison itself
            c = cmp_norm(e)
            if c is not None and want(*c) == "true":
                continue
            if fc.only_through([bb], g):
                continue
            ok = False
    for b in m.blocks:
        t = b.term
        if t.kind == "call" and t.dest is not None and t.dest.is_local() and t.dest.local == 0:
            any_def = True
            e = fc.eb.call(t, b.idx, 0)
            c = cmp_norm(e)
            if c is not None and want(*c) == "true":
                continue
            if fc.only_through([b.idx], g):
                continue
            ok = False
    return ok and any_def


def first_relevant_pred(op, a, b):
    l = E.mentions_call(b, "RtpsReaderProxy::first_relevant_sample_seq_num") or E.mentions_field(b, "first_relevant_sample_seq_num")
    r = E.mentions_call(a, "RtpsReaderProxy::first_relevant_sample_seq_num") or E.mentions_field(a, "first_relevant_sample_seq_num")
    if l and not r:
        return {"Gt": "true", "Le": "false"}.get(op)
    if r and not l:
        return {"Lt": "true", "Ge": "false"}.get(op)
    return None


def sends_guarded_by_first_relevant(facts, body, add, rule):
    """R01f/R04b: every as_data_submessage / as_data_frag_submessage is reached only for
    sequence numbers above the proxy's first relevant sample."""
    fc = FnCtx(body)
    m = fc.mir
    direct = fc.cmp_guards(first_relevant_pred)
    n = 0
    for bb, t in fc.calls("CacheChange::as_data_submessage", "CacheChange::as_data_frag_submessage", "as_data_submessage", "as_data_frag_submessage"):
        n += 1
        recv = fc.arg(t, 0)
        ok = fc.only_through([bb], direct)
        how = "direct guard"
        if not ok:
            # receiver comes from `find(iter, closure)`: the closure must require the comparison
            for c in E.calls_in(recv, "Iterator::find"):
                for sub in E.walk(c):
                    if sub[0] == "agg" and sub[1] == "closure":
                        pass
                term = fc.eb.terms.get(c[3])
                if term is None:
                    continue
                for a in term.args:
                    if a.place is None:
                        continue
                    ds = m.whole_defs(a.place.local)
                    for d in ds:
                        if d[0] == "s" and d[3].rv.kind == "aggregate" and d[3].rv.agg.get("k") == "closure":
                            cb = facts.bodies.get(d[3].rv.agg["def"])
                            if cb is not None and closure_requires(facts, cb, first_relevant_pred, parent_fc=fc):
                                ok = True
                                how = "find-closure requires it"
        add(rule, "%s guarded by seq > first_relevant_sample_seq_num" % t.callee.method(), ok,
            "a DATA/DATA_FRAG for change %s can be sent to a proxy regardless of its first relevant sample (history leaks to VOLATILE late joiners)" % fc.show(recv)[:120],
            t.line)
    return n


def periodic_heartbeat_solicits_ack(facts, rep, rule):
    """A reliable writer's periodic heartbeat (sent while changes are unacknowledged) must be non-final,
    and the reader must answer every non-final heartbeat: otherwise a lost ACKNACK is never repeated and
    the writer waits for ever although every sample was delivered."""
    b = facts.fn("RtpsReaderProxy", "write_message_reliable")
    fc = FnCtx(b)
    target = facts.fn("HeartbeatMachine", "generate_new_heartbeat")
    idx = None
    for nm, p in target.mir.names:
        if nm == "final_flag" and p.is_local() and target.mir.is_arg(p.local):
            idx = p.local - 1
    n = 0
    if idx is None:
        rep.add(rule, target.sname, "generate_new_heartbeat has a final_flag parameter", False, "parameter not found", target.loc())
        return 0
    g = fc.guards(lambda ce: "true" if E.is_call(E.strip_casts(ce.expr), "HeartbeatMachine::is_time_for_heartbeat") else None)
    for bb, t in fc.calls("HeartbeatMachine::generate_new_heartbeat"):
        if g and fc.only_through([bb], g):
            n += 1
            a = fc.arg(t, idx)
            rep.add(rule, b.sname, "periodic heartbeat is sent with final_flag = false", a == ("const", 0),
                    "periodic heartbeat has final_flag %s: a reader that has everything stays silent, so a lost ACKNACK is never repeated" % fc.show(a),
                    b.loc(t.line))
    # reader side: must_send_acknacks is true whenever the heartbeat is not final
    h = facts.fn("DcpsDomainParticipant", "handle_heartbeat_submessage")
    hf = FnCtx(h)
    nonfinal = hf.guards(lambda ce: "false" if E.is_call(E.strip_casts(ce.expr), "HeartbeatSubmessage::final_flag") else None)
    for bb, t in hf.calls("RtpsWriterProxy::set_must_send_acknacks"):
        n += 1
        a = t.args[1]
        ok = False
        if a.place is not None:
            # follow copies to the boolean variable
            e = hf.eb.operand(a)
            # `!final || x` and its De Morgan form `!(final && !x)`: strip the negations and ask for the matching constant
            neg = False
            while e[0] == "un" and e[1] == "Not":
                e, neg = e[2], not neg
            if e[0] == "local":
                for d in hf.mir.whole_defs(e[1]):
                    de = hf._def_expr(d)
                    if de == ("const", 0 if neg else 1) and nonfinal and hf.only_through([d[1]], nonfinal):
                        ok = True
            elif neg and E.is_call(e, "HeartbeatSubmessage::final_flag"):
                ok = True
        rep.add(rule, h.sname, "a non-final heartbeat always sets must_send_acknacks", ok,
                "must_send_acknacks is not forced to true on the final_flag()==false edge", h.loc(t.line))
    return n


def gap_ranges_nonempty(fx, rep, rule):
    """Every GAP the writer side builds covers at least its own start: `GapSubmessage::new(.., gap_start, SequenceNumberSet::new(base, []))`
    declares [gap_start, base-1] irrelevant, so `base` has the form `x + 1` with x the start itself (a single change) or the end of
    a range that starts at gap_start (`x = next - 1`). A GAP whose base equals its start covers nothing: the reader keeps
    requesting the same number and never delivers (or acknowledges) anything after it. Sibling sites must agree."""
    n = 0
    for b in fx.bodies.values():
        if not b.is_fn_like() or "::tests::" in b.sname or not b.calls_any("GapSubmessage::new"):
            continue
        if not ((b.impl_self or "").endswith(("RtpsReaderProxy", "RtpsStatefulWriter", "RtpsStatelessWriter", "RtpsReaderLocator"))
                or "stateful_writer" in b.sname or "stateless_writer" in b.sname):
            continue
        fc = FnCtx(b)
        for bb, t in fc.calls("GapSubmessage::new"):
            if len(t.args) < 4:
                continue
            n += 1
            start = E.arith_norm(E.strip_casts(fc.arg(t, 2)))
            lst = E.strip_casts(fc.arg(t, 3))
            base = None
            if lst[0] == "call" and lst[1].endswith("SequenceNumberSet::new") and lst[2]:
                base = E.arith_norm(E.strip_casts(lst[2][0]))
            ok = False
            why = "gap_list is not built by SequenceNumberSet::new at this site"
            if base is not None:
                why = "gap_list base is %s, gap_start is %s" % (fc.show(base)[:120], fc.show(start)[:120])
                if base[0] == "bin" and base[1] == "Add" and (E.strip_casts(base[3]) == ("const", 1) or E.strip_casts(base[2]) == ("const", 1)):
                    x = E.strip_casts(base[2] if E.strip_casts(base[3]) == ("const", 1) else base[3])
                    single = E.same(x, start)
                    ranged = x[0] == "bin" and x[1] == "Sub" and E.strip_casts(x[3]) == ("const", 1)
                    ok = single or ranged
            rep.add(rule, b.sname, "a GAP covers at least its start (gap_list base = last irrelevant number + 1)", ok,
                    "%s: the announced range [gap_start, base-1] is empty or unrelated to the start, the reader ignores the GAP and "
                    "requests the same sequence number for ever" % why, b.loc(t.line))
    return n
