"""C14 — Timestamps and durations survive wire conversion exactly; arithmetic stays normalised.

R14a  every u32->u32 scaling function between nanoseconds and RTPS 2^-32 s fractions is classified by
      the def-use chain of its division  ((x*A)+B)/C : encoders (A=2^32, C=10^9) must round UP
      (B = C-1), decoders (A=10^9, C=2^32) must round DOWN (B = 0).  With that pairing
      decode(encode(n)) == n for every n < 10^9 (n <= f*10^9/2^32 < n+1) and decode(f) < 10^9 for
      every f.  All copies must agree; an unrecognised formula is reported as undecided.
R14b  interval evaluation (per acyclic path, two algebraic idioms) of the `nanosec` field produced by
      Duration::new / Time::new / Add / Sub shows it in [0, 10^9) for normalised inputs.
R14c  Time/Duration values are built only by those functions, by From impls whose nanosec operand is a
      floor decoder / an already normalised nanosec, or by reviewed constants.
Monotonicity is not decided separately.
"""
from vplib import expr as E
from vplib.facts import Place, path_endswith, short_ty
from vplib.patheval import PathEvaluator, IntervalEval, U32, I32
from rules.common import FnCtx, adder

TECHNIQUE = "def-use classification of the scaling formula (rounding mode) + per-path interval evaluation of normalisation arithmetic"
ASSUMPTIONS = ["inputs to arithmetic are normalised (nanosec < 10^9); i32 seconds saturate by construction"]

NS = 1_000_000_000
F = 1 << 32


def classify(e):
    """((x*A)+B)/C on a u32 parameter -> (A, B, C) ; else None"""
    e = E.strip_casts(e)
    if not (e[0] == "bin" and e[1] in ("Div", "Shr")):
        return None
    num, den = E.strip_casts(e[2]), E.strip_casts(e[3])
    if den[0] == "bin" and den[1] == "Shl" and den[2] == ("const", 1) and den[3][0] == "const":
        den = ("const", 1 << den[3][1])
    if den[0] != "const":
        return None
    C = den[1] if e[1] == "Div" else (1 << den[1])
    B = 0
    if num[0] == "bin" and num[1] == "Add":
        x, y = E.strip_casts(num[2]), E.strip_casts(num[3])
        if y[0] == "const":
            B, num = y[1], x
        elif x[0] == "const":
            B, num = x[1], y
        else:
            return None
    if not (num[0] == "bin" and num[1] == "Mul"):
        return None
    x, y = E.strip_casts(num[2]), E.strip_casts(num[3])

    def const_of(z):
        if z[0] == "const":
            return z[1]
        if z[0] == "bin" and z[1] == "Shl" and z[2] == ("const", 1) and z[3][0] == "const":
            return 1 << z[3][1]
        if z[0] == "call" and z[1].endswith("pow") and len(z[2]) == 2 and z[2][0][0] == "const" and z[2][1][0] == "const":
            return z[2][0][1] ** z[2][1][1]
        return None
    for v, c in ((x, y), (y, x)):
        A = const_of(c)
        if A is not None and v[0] in ("param", "local", "call"):
            return (A, B, C, v)
    return None


def scaling_functions(fx, rep):
    enc, dec = [], []
    for b in fx.bodies.values():
        if b.kind not in ("Fn", "AssocFn") or not b.is_fn_like():
            continue
        if "rtps" not in b.file and "time.rs" not in b.file:
            continue
        m = b.mir
        fc = None
        # any division by 10^9 or 2^32 in the body
        for bb, i, s in m.stmts():
            if s.kind != "assign" or s.rv.kind != "binop" or s.rv.op not in ("Div", "Shr"):
                continue
            fc = fc or FnCtx(b)
            e = fc.rv_expr(s)
            c = classify(e)
            den = E.strip_casts(e[3])
            interesting = False
            if c is not None and {c[0], c[2]} == {NS, F}:
                interesting = True
            if c is None:
                # a division by 10^9 / 2^32 of something that was multiplied is a scaling formula we cannot read
                txt = fc.show(e)
                if ("4294967296" in txt or "<< 32" in txt) and "1000000000" in txt:
                    rep.add("R14a", b.sname, "scaling formula has the shape ((x*A)+B)/C", False,
                            "undecided formula %s" % txt[:140], b.loc(s.line))
                continue
            if not interesting:
                continue
            A, B, C, v = c
            kind = "encode" if (A == F and C == NS) else "decode"
            (enc if kind == "encode" else dec).append((b, B, s.line))
            if kind == "encode":
                mode = {0: "floor", C // 2: "nearest", C - 1: "ceil"}.get(B, "B=%d" % B)
                rep.add("R14a", b.sname, "nanosecond -> fraction conversion rounds up (ceil)", B == C - 1,
                        "encoder rounds %s: with a floor decoder, decode(encode(n)) = n-1 for about half of all n (e.g. 1 ns -> 0 ns)" % mode,
                        b.loc(s.line))
            else:
                mode = {0: "floor", C // 2: "nearest", C - 1: "ceil"}.get(B, "B=%d" % B)
                rep.add("R14a", b.sname, "fraction -> nanosecond conversion rounds down (floor)", B == 0,
                        "decoder rounds %s: results can reach 10^9 (unnormalised) or differ from the encoded value" % mode, b.loc(s.line))
    return enc, dec


def callee_component(fx, fc, e, depth):
    """interval of component e[4] of the value an in-crate helper returns, evaluated over the helper's acyclic paths with its
    parameters bound to the intervals of the caller's arguments (a normalisation block extracted into a helper keeps its meaning)"""
    if fx is None or depth > 2 or len(e) < 5 or len(e[4]) != 1 or not str(e[4][0]).isdigit():
        return None
    t = fc.eb.terms.get(e[3]) if hasattr(fc.eb, "terms") else None
    if t is None:
        for bb, t2 in fc.mir.calls():
            if bb == e[3]:
                t = t2
    if t is None or t.callee.indirect or t.callee.res_id not in fx.bodies:
        return None
    cb = fx.bodies[t.callee.res_id]
    if cb.mir is None:
        return None
    caller_ie = IntervalEval(leaf_for(fc, fx=fx, depth=depth + 1), (), fc.mir)
    arg_iv = [caller_ie.ev(a) for a in e[2]]
    cfc = FnCtx(cb)
    base_leaf = leaf_for(cfc, fx=fx, depth=depth + 1)

    def leaf(x):
        if x[0] == "param" and not x[2] and 1 <= x[1] <= len(arg_iv) and arg_iv[x[1] - 1] is not None:
            return arg_iv[x[1] - 1]
        return base_leaf(x)
    comp = int(e[4][0])
    lo = hi = None
    for env, trail in PathEvaluator(cb.mir, cb).paths():
        ret = env.env.get(0)
        if ret is None or ret[0] != "agg" or comp >= len(ret[2]):
            return None
        iv = IntervalEval(leaf, env.constraints, cb.mir).ev(ret[2][comp])
        if iv is None:
            return None
        lo = iv[0] if lo is None else min(lo, iv[0])
        hi = iv[1] if hi is None else max(hi, iv[1])
    return None if lo is None else (lo, hi)


def leaf_for(fc, normalized_types=("Duration", "Time"), fx=None, depth=0):
    m = fc.mir

    def leaf(e):
        if e[0] == "call" and len(e) > 4 and e[4]:
            r = callee_component(fx, fc, e, depth)
            if r is not None:
                return r
        if e[0] == "param":
            ty = m.locals[e[1]]
            if e[2][-1:] == ("nanosec",):
                return (0, NS - 1)
            if e[2][-1:] == ("sec",):
                return I32
            if not e[2]:
                from vplib.patheval import TY_RANGE
                return TY_RANGE.get(ty)
        if e[0] == "call":
            nm = e[1]
            if nm.endswith("saturating_add") or nm.endswith("saturating_sub"):
                return I32
        return None
    return leaf


def normalisation(fx, rep):
    n = 0
    targets = []
    for b in fx.bodies.values():
        if b.kind != "AssocFn":
            continue
        st = short_ty(b.impl_self or "")
        if st not in ("Duration", "Time") or "behavior_types" in b.file or "rtps_messages" in b.file:
            continue
        if b.item_name in ("new", "add", "sub"):
            targets.append(b)
    for b in targets:
        pe = PathEvaluator(b.mir, b)
        fc = FnCtx(b)
        built = 0
        for env, trail in pe.paths():
            ret = env.env.get(0)
            if ret is None:
                continue
            if ret[0] == "call":
                # delegated (Time::sub -> Duration::new / Duration::sub): covered by the callee
                continue
            if ret[0] != "adt" or len(ret) < 6 or "nanosec" not in ret[5]:
                continue
            built += 1
            ne = ret[3][ret[5].index("nanosec")]
            ie = IntervalEval(leaf_for(fc, fx=fx), env.constraints, b.mir)
            iv = ie.ev(ne)
            ok = iv is not None and iv[0] >= 0 and iv[1] <= NS - 1
            n += 1
            rep.add("R14b", b.sname, "nanosec of the result is in [0, 10^9) on path %s" % ("-".join(map(str, trail[:12]))), ok,
                    "nanosec = %s evaluates to %s" % (E.show(ne, b.mir)[:140], iv), b.loc())
    return n, len(targets)


def constructions(fx, rep, decoders):
    dec_names = {b.sname for b, B, line in decoders if B == 0}
    n = 0
    for b in fx.bodies.values():
        if not b.is_fn_like():
            continue
        if not (b.builds("infrastructure::time::Duration") or b.builds("infrastructure::time::Time") or b.builds("transport::types::Time")):
            continue
        root = b
        while root.parent in fx.bodies:
            root = fx.bodies[root.parent]
        st = short_ty(root.impl_self or "")
        if st in ("Duration", "Time") and root.item_name in ("new", "add", "sub") and root.impl_trait in (None, "core::ops::Add", "core::ops::Sub", "std::ops::Add", "std::ops::Sub"):
            continue
        fc = FnCtx(b)
        for bb, i, s in fc.mir.stmts():
            if s.kind != "assign" or not (s.rv.is_adt("infrastructure::time::Duration") or s.rv.is_adt("infrastructure::time::Time") or s.rv.is_adt("transport::types::Time")):
                continue
            fields = s.rv.agg["fields"]
            if "nanosec" not in fields:
                continue
            e = fc.rv_expr(s)[3][fields.index("nanosec")]
            es = E.strip_casts(e)
            ok = False
            why = ""
            if es[0] == "call" and any(path_endswith(d, es[1]) or es[1].endswith(d.split("::")[-1]) for d in dec_names):
                ok = True
            elif es[0] == "const" and (es[1] < NS or es[1] == 0xffffffff):
                ok = True   # literal, or the DURATION_INFINITE / TIME_INVALID sentinel
            elif es[0] == "named":
                ok = True   # named constants are reviewed: DURATION_INFINITE_NSEC / TIME_INVALID_NSEC sentinels
            elif es[0] in ("param", "local") and es[2][-1:] == ("nanosec",):
                ok = True
            elif root.impl_trait is not None and (path_endswith(root.impl_trait, "CdrDeserialize") or path_endswith(root.impl_trait, "TypeSupport")):
                # input boundary: the value is whatever the peer / the dynamic data holds; the property speaks
                # about *valid* times, so this is recorded as a note, not as an obligation
                rep.note("input boundary (not an obligation): %s builds a Duration/Time from received data without normalising nanosec" % b.sname)
                continue
            n += 1
            rep.add("R14c", b.sname, "Time/Duration built outside new/add/sub has a normalised nanosec", ok,
                    "nanosec operand %s is neither a floor decoder result, a normalised nanosec nor a reviewed constant" % fc.show(e)[:120], b.loc(s.line))
    return n


def seconds_pass_through(fx, rep):
    """R14d: in every From impl between the wire / transport / API time types the seconds operand is passed on unchanged or
    through one same-width integer cast (i32 <-> u32 is bit-preserving, so the opposite conversion restores it). A clamp,
    try_from or arithmetic on one side would make the two directions disagree for some second values."""
    n = 0
    for b in fx.bodies.values():
        if not (b.is_fn_like() and b.item_name == "from" and (b.impl_trait or "").endswith("From") and "::tests::" not in b.sname):
            continue
        if not any(x in (b.impl_self or "") for x in ("Time", "Duration")):
            continue
        fc = FnCtx(b)
        ops = []
        for bb, t in fc.mir.calls():
            if not t.callee.indirect and t.callee.method() == "new" and len(t.args) == 2:
                ops.append((fc.arg(t, 0), t.line))
        for bb, i, s in fc.mir.stmts():
            if s.kind == "assign" and s.rv is not None and s.rv.kind == "aggregate" and s.rv.agg.get("k") == "adt" and (s.rv.agg.get("fields") or [None])[0] in ("sec", "seconds"):
                ops.append((fc.rv_expr(s)[3][0], s.line))
        for e, line in ops:
            src_is_std = any(x[0] == "call" and x[1].endswith(("::as_secs", "::subsec_nanos")) for x in E.walk(e)) or (e[0] == "cast" and (e[1] == "u64" or (len(e) > 4 and e[4] == "u64")))
            if src_is_std:
                continue   # core::time::Duration has a different range by design
            n += 1
            inner = e
            casts = 0
            while inner[0] == "cast":
                ok_w = inner[3] == "IntToInt" and inner[1] in ("i32", "u32") and (len(inner) < 5 or inner[4] in ("i32", "u32"))
                casts += 1 if ok_w else 10
                inner = inner[2]
            plain = inner[0] in ("param", "local") or (inner[0] == "call" and inner[1].split("::")[-1] in ("sec", "seconds") and not inner[4])
            rep.add("R14d", b.sname, "seconds cross this conversion unchanged (at most one i32 <-> u32 cast)", plain and casts <= 1,
                    "seconds operand is %s: the opposite conversion is a plain cast, so the pair no longer round-trips every second value" % fc.show(e)[:120], b.loc(line))
    return n


def run(ctx, rep):
    fx = ctx.facts
    nsec = seconds_pass_through(fx, rep)
    rep.floor("R14d", nsec, 6, "seconds operands in Time/Duration From impls")
    enc, dec = scaling_functions(fx, rep)
    rep.floor("R14a-enc", len(enc), 2, "nanosecond->fraction encoders (infrastructure/time.rs, rtps_messages/types.rs)")
    rep.floor("R14a-dec", len(dec), 3, "fraction->nanosecond decoders (two copies + behavior_types)")
    n, t = normalisation(fx, rep)
    rep.floor("R14b", n, 6, "result constructions in Duration/Time new/add/sub")
    k = constructions(fx, rep, dec)
    rep.floor("R14c", k, 2, "Time/Duration constructions outside new/add/sub")
