"""C05 — Fragmentation: numbering agreement and zero-division freedom (structural).

R05a  index-base qualifiers: fragment numbers on the wire are 1-based (FragmentNumberSet::base/set,
      DataFragSubmessage::fragment_starting_num), loop indices from `0..n` are 0-based, `x+1`/`x-1`
      convert. The index parameter of CacheChange::as_data_frag_submessage has the base its own
      body implies (it adds 1 before building the submessage => 0-based); every caller must pass
      that base, and a bound test against the fragment count must use `<` for 0-based and `<=` for
      1-based values.
R05b  the three "number of fragments" formulas (writer div_ceil, reader total_fragments_expected,
      reader NACK_FRAG producer) are all ceil(data_size / fragment_size).
R05c  a decoded DATA_FRAG never carries fragment_size == 0 (the reader divides by it).
R05d  NACK_FRAG requests are honoured only when fresh (count > last_received_nack_frag_count) and
      the reader increments its nack_frag_count for every NACK_FRAG it builds — otherwise the first
      request carries count 0 and is filtered by the writer.
R05g  completeness of a fragmented sample is decided by *counting* the buffered fragments, so a fragment must never be
      buffered twice: every push into RtpsWriterProxy::frag_buffer is reached only through the "not present" outcome of a
      membership test over the whole buffer (`contains`, `iter().any / all / find / position`); a duplicated datagram plus
      a lost fragment would otherwise make a truncated sample count as complete (and be acknowledged).
Byte-identical reassembly under reordering is not decided.
"""
from vplib import expr as E
from vplib.facts import Place
from vplib.intervals import SubjectAnalysis, ISet
from rules.common import FnCtx, cmp_norm, adder

TECHNIQUE = "MIR qualifier inference (index base) over reconstructed expressions, sibling-formula comparison, interval analysis on the decoded field, must-accompany"
ASSUMPTIONS = ["RTPS fragment numbers start at 1 (RTPS 2.5 §8.3.8.3)"]

B1_SOURCES = ("FragmentNumberSet::base", "FragmentNumberSet::set", "DataFragSubmessage::fragment_starting_num",
              "NackFragSubmessage::fragment_number_state")


def frag_base(e, depth=0):
    """'B0' | 'B1' | None"""
    if depth > 10:
        return None
    e = E.strip_casts(e)
    if e == ("const", 0):
        return "B0"
    if e[0] == "bin" and e[1] == "Add" and E.strip_casts(e[2]) == ("const", 1) and E.strip_casts(e[3])[0] != "const":
        e = ("bin", "Add", e[3], ("const", 1))     # 1 + x
    if e[0] == "bin" and e[1] in ("Add", "Sub") and e[3][0] == "const" and e[3][1] == 1:
        b = frag_base(e[2], depth + 1)
        if e[1] == "Add":
            return {"B0": "B1"}.get(b)
        return {"B1": "B0"}.get(b)
    if e[0] == "call" and E.is_call(e, "Iterator::next") and e[4][:2] == ("as Some", "0"):
        it = E.strip_casts(e[2][0]) if e[2] else None
        if it is None:
            return None
        if it[0] == "adt" and it[1].endswith("ops::Range") and it[3] and it[3][0][0] == "const":
            return {0: "B0", 1: "B1"}.get(it[3][0][1])
        if it[0] == "call" and E.is_call(it, "RangeInclusive::new") and it[2] and it[2][0][0] == "const":
            return {0: "B0", 1: "B1"}.get(it[2][0][1])
        if E.mentions_call(it, *B1_SOURCES):
            return "B1"
        return None
    if E.mentions_call(e, *B1_SOURCES) and e[0] == "call":
        return "B1"
    return None


def callee_convention(facts):
    """base expected by the `fragment_number` parameter of as_data_frag_submessage, read off its body"""
    b = facts.fn("CacheChange", "as_data_frag_submessage")
    fc = FnCtx(b)
    target = facts.fn("DataFragSubmessage", "new")
    idx = None
    for nm, p in target.mir.names:
        if nm == "fragment_starting_num" and p.is_local() and target.mir.is_arg(p.local):
            idx = p.local - 1
    pidx = None
    for nm, p in b.mir.names:
        if nm == "fragment_number" and p.is_local() and b.mir.is_arg(p.local):
            pidx = p.local
    if idx is None or pidx is None:
        return None, None, b
    for bb, t in fc.calls("DataFragSubmessage::new"):
        e = E.strip_casts(fc.arg(t, idx))
        if e == ("param", pidx, ()):
            return "B1", pidx, b
        if e[0] == "bin" and e[1] == "Add" and {E.strip_casts(e[2]), E.strip_casts(e[3])} == {("param", pidx, ()), ("const", 1)}:
            return "B0", pidx, b
        if e[0] == "bin" and e[1] == "Sub" and E.strip_casts(e[2]) == ("param", pidx, ()) and e[3] == ("const", 1):
            return "B2", pidx, b
    return None, pidx, b


def is_fragment_count(e):
    e = E.strip_casts(e)
    return E.is_call(e, "div_ceil") or (e[0] == "call" and e[1].endswith("div_ceil"))


def _range_upper_test(e):
    """`(a..b).contains(&x)` read as `x < b`, `(a..=b).contains(&x)` as `x <= b` (the upper bound is the one that matters for
    a fragment count); None for anything else"""
    e = E.strip_casts(e)
    if e[0] != "call" or e[1].split("::")[-1] != "contains" or len(e[2]) != 2:
        return None
    r, x = E.strip_casts(e[2][0]), E.strip_casts(e[2][1])
    if r[0] == "adt" and r[2] in ("Range", "RangeTo") and r[3]:
        return ("Lt", x, r[3][-1])
    if r[0] == "adt" and r[2] == "RangeToInclusive" and r[3]:
        return ("Le", x, r[3][-1])
    if r[0] == "call" and r[1].endswith("RangeInclusive::new") and len(r[2]) == 2:
        return ("Le", x, r[2][1])
    return None


def callers(facts, rep, want, pidx):
    n = 0
    nb = [0]
    for ob in facts.bodies.values():
        if not ob.is_fn_like() or not ob.calls_any("as_data_frag_submessage"):
            continue
        fc = FnCtx(ob)
        for bb, t in fc.calls("as_data_frag_submessage"):
            n += 1
            a = fc.arg(t, pidx - 1)
            got = frag_base(a)
            rep.add("R05a", ob.sname, "fragment index passed to as_data_frag_submessage has the callee's base (%s)" % want,
                    got == want, "argument %s is %s" % (fc.show(a)[:140], {"B0": "0-based", "B1": "1-based (wire fragment number)", None: "of unknown base"}[got]),
                    ob.loc(t.line))
            # bound tests between this value and a fragment count
            a0 = E.strip_casts(a)
            subj = a0
            if a0[0] == "bin" and a0[1] in ("Add", "Sub"):
                subj = E.strip_casts(a0[2])
            sb = frag_base(subj)
            for sbb, ce in fc.ces.items():
                c = cmp_norm(ce.expr) or _range_upper_test(ce.expr)
                if c is None:
                    continue
                op, x, y = c
                xs, ys = E.strip_casts(x), E.strip_casts(y)
                if E.same(ys, subj) and is_fragment_count(xs):
                    # `count >= value` is `value <= count`
                    op, xs, ys = {"Lt": "Gt", "Gt": "Lt", "Le": "Ge", "Ge": "Le"}.get(op, op), ys, xs
                if E.same(xs, subj) and is_fragment_count(ys):
                    # the test may be written as the rejection (`if n > count { continue; }`): which edge leads to the send decides
                    if ce.true_target is not None and ce.false_target is not None:
                        via_t = bb in fc.mir.reachable(ce.true_target, removed_blocks=[sbb])
                        via_f = bb in fc.mir.reachable(ce.false_target, removed_blocks=[sbb])
                        if via_f and not via_t:
                            op = {"Lt": "Ge", "Ge": "Lt", "Gt": "Le", "Le": "Gt", "Eq": "Ne", "Ne": "Eq"}.get(op, op)
                    good = {"B0": ("Lt",), "B1": ("Le",)}.get(sb, ())
                    nb[0] += 1
                    rep.add("R05a", ob.sname, "bound test of a %s fragment value against the fragment count" % sb, op in good,
                            "`%s %s count` is wrong for a %s value: %s" % (fc.show(subj)[:60], op, sb,
                            "the last fragment can never be requested" if sb == "B1" else "one past the end is accepted"),
                            ob.loc(fc.mir.blocks[sbb].term.line))
    rep.floor("R05a-bound", nb[0], 1, "bound tests of a requested fragment number against the fragment count")
    return n


def formulas(facts, rep):
    n = 0
    # reader: total_fragments_expected
    b = facts.fn(free="total_fragments_expected")
    fc = FnCtx(b)
    ret = fc.eb.place(Place([0, []]))
    ok = False
    detail = fc.show(ret)
    if ret[0] == "bin" and ret[1] == "Add":
        for d, c in ((ret[2], ret[3]), (ret[3], ret[2])):
            if d[0] == "bin" and d[1] == "Div" and E.mentions_call(d[2], "DataFragSubmessage::data_size") and E.mentions_call(d[3], "DataFragSubmessage::fragment_size"):
                # correction term: 0 on the is_multiple_of true edge, 1 otherwise
                if c[0] == "local":
                    defs = fc.mir.whole_defs(c[1])
                    g = fc.guards(lambda ce: "true" if E.is_call(E.strip_casts(ce.expr), "is_multiple_of") else None)
                    vals = {}
                    for dd in defs:
                        de = fc._def_expr(dd)
                        behind = fc.only_through([dd[1]], g)
                        vals[(de, behind)] = True
                    ok = (("const", 0), True) in vals and (("const", 1), False) in vals and len(vals) == 2
    if E.is_call(E.strip_casts(ret), "div_ceil"):
        ok = True
    n += 1
    rep.add("R05b", b.sname, "reader total_fragments_expected = ceil(data_size / fragment_size)", ok, "formula is %s" % detail[:200], b.loc())
    # every other fragment count is a div_ceil of (payload length, fragment size)
    for ob in facts.bodies.values():
        if not ob.is_fn_like() or not ob.calls_any("div_ceil"):
            continue
        if "rtps/" not in ob.file:
            continue
        fc2 = FnCtx(ob)
        for bb, t in fc2.calls("div_ceil"):
            a, c = fc2.arg(t, 0), fc2.arg(t, 1)
            good = (E.mentions_call(a, "len") or E.mentions_call(a, "DataFragSubmessage::data_size")) and \
                   (E.mentions_field(c, "data_max_size_serialized") or E.mentions_local_named(fc2.mir, c, "data_max_size_serialized")
                    or E.mentions_call(c, "DataFragSubmessage::fragment_size"))
            n += 1
            rep.add("R05b", ob.sname, "fragment count = div_ceil(payload size, fragment size)", good,
                    "div_ceil(%s, %s)" % (fc2.show(a)[:80], fc2.show(c)[:80]), ob.loc(t.line))
    # no sibling computes a fragment count with a floor division (len / size [+ 1] is wrong for exact multiples or remainders)
    for ob in facts.bodies.values():
        if not ob.is_fn_like() or "rtps/" not in (ob.file or "") or "::tests::" in ob.sname or ob.item_name == "total_fragments_expected":
            continue
        if not ob.sum_calls or not any(x.endswith("::len") for x in ob.sum_calls):
            continue
        fc2 = FnCtx(ob)
        for bb, i, s in fc2.mir.stmts():
            if s.kind == "assign" and s.rv is not None and s.rv.kind == "binop" and s.rv.op == "Div":
                e = fc2.rv_expr(s)
                a, c = e[2], e[3]
                if E.mentions_call(a, "len") and (E.mentions_field(c, "data_max_size_serialized") or E.mentions_local_named(fc2.mir, c, "data_max_size_serialized")):
                    rep.add("R05b", ob.sname, "no floor division of the payload size by the fragment size", False,
                            "%s: the sibling sites and the reader use ceil(len / size); a floor division (with or without + 1) miscounts the fragments of payloads that are / are not an exact multiple" % fc2.show(e)[:120],
                            ob.loc(s.line))
    return n


def decoder_nonzero(facts, rep):
    b = facts.fn("DataFragSubmessage", "try_from_bytes")
    fc = FnCtx(b)
    n = 0
    for bb, i, s in fc.aggregates("DataFragSubmessage"):
        fields = s.rv.agg["fields"]
        if "fragment_size" not in fields:
            continue
        n += 1
        e = fc.rv_expr(s)[3][fields.index("fragment_size")]
        es = E.strip_casts(e)
        ana = SubjectAnalysis(fc.mir, lambda x, es=es: E.same(x, es), body=b, eb=fc.eb, lo=0, hi=65535)
        st = ana.at(bb)
        ok = not st.intersect(ISet([(0, 0)])).iv
        rep.add("R05c", b.sname, "decoded DATA_FRAG never has fragment_size == 0", ok,
                "a DATA_FRAG with fragment_size 0 is accepted (value set at construction: %r); the reader then divides by it "
                "(total_fragments_expected, div_ceil in RtpsWriterProxy::write_message)" % st, b.loc(s.line))
    return n


def nack_frag_counts(facts, rep):
    n = 0
    # consumer: fresh only
    b = facts.fn("RtpsStatefulWriter", "on_nack_frag_submessage_received")
    fc = FnCtx(b)

    def pred(op, a, c):
        l = E.mentions_call(a, "NackFragSubmessage::count") and E.mentions_call(c, "RtpsReaderProxy::last_received_nack_frag_count")
        r = E.mentions_call(c, "NackFragSubmessage::count") and E.mentions_call(a, "RtpsReaderProxy::last_received_nack_frag_count")
        if l:
            return {"Gt": "true", "Le": "false"}.get(op)
        if r:
            return {"Lt": "true", "Ge": "false"}.get(op)
        return None
    g = fc.cmp_guards(pred)
    sends = [bb for bb, t in fc.calls("WriteMessage::write_message")]
    rep.add("R05d", b.sname, "NACK_FRAG processed only when count > last_received_nack_frag_count", bool(g) and fc.only_through(sends, g),
            "resend reachable without the freshness test", b.loc())
    setc = fc.calls("RtpsReaderProxy::set_last_received_nack_frag_count")
    rep.add("R05d", b.sname, "last_received_nack_frag_count is updated", bool(setc), "never stored", b.loc())
    n += len(sends)
    # producer: increments before building
    w = facts.fn("RtpsWriterProxy", "write_message")
    wf = FnCtx(w)
    builds = wf.calls("NackFragSubmessage::new")
    writers = [ob for ob in facts.bodies.values() if ob.is_fn_like() and ob.writes_field("RtpsWriterProxy", "nack_frag_count")]
    rep.add("R05d", w.sname, "nack_frag_count is incremented somewhere", bool(writers),
            "RtpsWriterProxy::nack_frag_count is never written after construction: every NACK_FRAG carries count 0, which the "
            "writer's `count > last_received_nack_frag_count` (initially 0) filter rejects — lost fragments are never resent", w.loc())
    for bb, t in builds:
        n += 1
        inc_blocks = [b2 for b2, i2, s2 in wf.field_writes("RtpsWriterProxy", "nack_frag_count")]
        inc_blocks += [b2 for b2, t2 in wf.mir.calls() if not t2.callee.indirect and t2.callee.res_id in {x.id for x in writers}]
        rep.add("R05d", w.sname, "every NACK_FRAG is built after incrementing nack_frag_count", bool(inc_blocks) and wf.only_through([bb], [], ) is False and
                bb not in wf.mir.reachable(0, removed_blocks=inc_blocks),
                "NackFragSubmessage::new reachable without an increment of nack_frag_count", w.loc(t.line))
        cnt = wf.arg(t, len(t.args) - 1)
        rep.add("R05d", w.sname, "NACK_FRAG count argument is nack_frag_count", E.mentions_field(cnt, "nack_frag_count"),
                "count argument is %s" % wf.show(cnt), w.loc(t.line))
    return n


def reassembly_order(facts, rep):
    """R05e: reassembly appends fragment payloads in fragment-number order, not in arrival order."""
    from rules.common import closure_bodies_in
    b = facts.fn("RtpsWriterProxy", "reconstruct_data_from_frag")
    fc = FnCtx(b)
    n = 0
    sorted_first = False
    for bb, t in fc.calls("sort_by_key", "sort_by", "sort_unstable_by_key", "sort_unstable_by"):
        if any(cb.calls_any("DataFragSubmessage::fragment_starting_num") for cb in closure_bodies_in(facts, fc, fc.eb.call(t, bb, 0))):
            sorted_first = True
    for bb, t in fc.calls("Vec::extend_from_slice", "Vec::extend", "Vec::append"):
        a = fc.arg(t, 1)
        if not E.mentions_call(a, "DataFragSubmessage::serialized_payload"):
            continue
        n += 1
        keyed = any(cb.calls_any("DataFragSubmessage::fragment_starting_num") for cb in closure_bodies_in(facts, fc, a))
        ranged = False
        for b2, t2 in fc.calls("Iterator::next"):
            it = E.strip_casts(fc.arg(t2, 0))
            if (it[0] == "adt" and it[1].endswith("ops::Range")) or E.is_call(it, "RangeInclusive::new"):
                ranged = True
        rep.add("R05e", b.sname, "fragment payloads are appended in fragment-number order", sorted_first or (keyed and ranged),
                "payload appended from %s: fragments are taken in buffer (arrival) order, so reordered DATA_FRAGs permute the sample's bytes" % fc.show(a)[:120],
                b.loc(t.line))
    return n


def reassembly_same_sample(facts, rep):
    """R05f: every selection from the fragment buffer inside reconstruct_data_from_frag is restricted to the sample being
    rebuilt (closure compares writer_sn() with the requested sequence number): completeness count, per-fragment lookup and
    header lookup are siblings and must agree."""
    b = facts.fn("RtpsWriterProxy", "reconstruct_data_from_frag")
    n = 0
    for c in facts.descendants(b):
        if not c.kind.startswith("Closure"):
            continue
        cf = FnCtx(c)
        # closures over a DataFragSubmessage element: they call accessor methods of it
        if not c.calls_any("DataFragSubmessage::writer_sn", "DataFragSubmessage::fragment_starting_num", "DataFragSubmessage::fragments_in_submessage"):
            continue
        if c.calls_any("DataFragSubmessage::fragments_in_submessage") and not c.calls_any("DataFragSubmessage::writer_sn") and not c.calls_any("DataFragSubmessage::fragment_starting_num"):
            continue   # the fold that sums the counts of an already filtered iterator
        # only predicates (closures returning bool)
        if cf.mir.locals[0] != "bool":
            continue
        n += 1
        ok = False
        for bb, i, s in cf.mir.stmts():
            if s.kind == "assign" and s.rv is not None and s.rv.kind == "binop" and s.rv.op in ("Eq", "Ne"):
                e = cf.rv_expr(s)
                if E.mentions_call(e[2], "DataFragSubmessage::writer_sn") or E.mentions_call(e[3], "DataFragSubmessage::writer_sn"):
                    ok = True
        rep.add("R05f", c.sname, "fragment selection is restricted to the sample being rebuilt (writer_sn == seq_num)", ok,
                "this predicate over the fragment buffer does not compare writer_sn(): fragments of another sample with the same fragment number can be spliced into the payload",
                c.loc())
    return n


def no_duplicate_fragments(facts, rep):
    """R05g: pushes into frag_buffer only behind a whole-buffer membership test."""
    n = 0
    for b in facts.find_fns(self_ty="RtpsWriterProxy"):
        if not b.calls_any("Vec::push"):
            continue
        fc = FnCtx(b)
        ev = []
        for bb, t in fc.calls("Vec::push"):
            a = fc.arg(t, 0)
            if E.mentions_field(a, "frag_buffer"):
                ev.append((bb, t))
        if not ev:
            continue

        def guard(e, outcome, ce=None):
            e0 = E.strip_casts(e)
            if e0[0] == "call" and E.mentions_field(e0, "frag_buffer"):
                nm = e0[1].split("::")[-1]
                if nm in ("contains", "any"):
                    return outcome == "false"
                if nm == "all":
                    return outcome == "true"
            if e0[0] == "discr" and e0[1][0] == "call" and E.mentions_field(e0[1], "frag_buffer") \
                    and e0[1][1].split("::")[-1] in ("find", "position", "rposition"):
                return outcome == 0
            return False
        found = fc.reach_avoiding([bb for bb, _ in ev], guard)
        for bb, t in ev:
            n += 1
            rep.add("R05g", b.sname, "a fragment is buffered only when the buffer does not hold it yet (whole-buffer membership test)",
                    bb not in found,
                    "frag_buffer.push is reachable without a `contains`-style test over the whole buffer: a duplicated DATA_FRAG is "
                    "counted twice by reconstruct_data_from_frag, so with one fragment lost a truncated sample is taken as complete; "
                    "witness blocks %s" % (found.get(bb),), b.loc(t.line))
    return n


def run(ctx, rep):
    fx = ctx.facts
    n7 = no_duplicate_fragments(fx, rep)
    rep.floor("R05g", n7, 1, "pushes into RtpsWriterProxy::frag_buffer")
    n5 = reassembly_order(fx, rep)
    rep.floor("R05e", n5, 1, "payload appends in reconstruct_data_from_frag")
    n6 = reassembly_same_sample(fx, rep)
    rep.floor("R05f", n6, 4, "fragment-buffer predicates in reconstruct_data_from_frag")
    want, pidx, b = callee_convention(fx)
    rep.add("R05a", b.sname, "as_data_frag_submessage derives fragment_starting_num from its index parameter", want in ("B0", "B1"),
            "cannot read the callee's convention (fragment_starting_num is not param / param+1)", b.loc())
    n = callers(fx, rep, want, pidx) if want in ("B0", "B1") else 0
    rep.floor("R05a", n, 4, "call sites of as_data_frag_submessage")
    n2 = formulas(fx, rep)
    rep.floor("R05b", n2, 5, "fragment-count formulas")
    n3 = decoder_nonzero(fx, rep)
    rep.floor("R05c", n3, 1, "DataFragSubmessage constructions in the decoder")
    n4 = nack_frag_counts(fx, rep)
    rep.floor("R05d", n4, 2, "NACK_FRAG consumer sends + producer constructions")
