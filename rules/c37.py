"""C37 — QoS validation: inconsistent and immutable changes are rejected atomically (structural).

R37a  every store of a QoS value whose type has an `is_consistent` method — assignment to an entity's `qos`
      / `default_*_qos` field, or passing it to an entity constructor — is reached only through the Ok edge
      of is_consistent() on that value (values read from an already validated default are exempt), and in
      the set_*_qos functions additionally through check_immutability() on the enabled edge when the type
      has one.  Since the guards dominate the store, a rejected change leaves the previous QoS in place.
R37d  an accepted change of an enabled reader / writer / topic is announced (announce_* follows the store)
R37e  check_immutability of each QoS type compares (at least) the policies DDS marks as not changeable
"""
from vplib import expr as E
from vplib.facts import short_ty, Place
from rules.common import compared_param_fields, FnCtx, cmp_norm, adder

TECHNIQUE = "guard-free path search from function entry to every QoS store (is_consistent / check_immutability edges), sibling agreement over set_qos / create functions, field-set table for immutability"
ASSUMPTIONS = ["DDS 1.4 §2.2.3 'Changeable' column transcribed in IMMUTABLE"]

IMMUTABLE = {"DataWriterQos": {"durability", "liveliness", "reliability", "destination_order", "history", "resource_limits", "ownership"},
             "DataReaderQos": {"durability", "liveliness", "reliability", "destination_order", "history", "resource_limits", "ownership"},
             "SubscriberQos": {"presentation"}, "PublisherQos": {"presentation"}}
ANNOUNCE = {"set_data_writer_qos": "announce_data_writer", "set_data_reader_qos": "announce_data_reader", "set_topic_qos": "announce_topic"}


def qos_types(fx):
    cons, imm = set(), set()
    for b in fx.bodies.values():
        if b.kind == "AssocFn" and b.impl_self and short_ty(b.impl_self).endswith("Qos"):
            if b.item_name == "is_consistent":
                cons.add(short_ty(b.impl_self))
            if b.item_name == "check_immutability":
                imm.add(short_ty(b.impl_self))
    return cons, imm


def consistent_guard(value_expr_ok):
    def g(e, outcome, ce):
        e0 = E.strip_casts(e)
        if e0[0] == "discr":
            sc = e0[1]
            if E.is_call(sc, "Try::branch") and sc[2] and E.is_call(E.strip_casts(sc[2][0]), "is_consistent") and not sc[4]:
                return outcome == 0
            if E.is_call(sc, "is_consistent") and not sc[4]:
                return outcome == 0
        if E.is_call(e0, "Result::is_ok") and e0[2] and E.is_call(E.strip_casts(e0[2][0]), "is_consistent"):
            return outcome == "true"
        if E.is_call(e0, "Result::is_err") and e0[2] and E.is_call(E.strip_casts(e0[2][0]), "is_consistent"):
            return outcome == "false"
        # QosKind::Default arm: the value is the stored default, which is validated when it is set
        # (the set_default_*_qos functions are subject to this same rule)
        if e0[0] == "discr" and e0[1][0] == "param" and not e0[1][2] and outcome == 0 and value_expr_ok is not None and value_expr_ok(e0[1]):
            return True
        return False
    return g


def _owner(e, field):
    """the expression of the value whose `field` e reads (None when e is not such a read)"""
    e = E.strip_casts(e)
    if e[0] in ("param", "local") and e[2] and e[2][-1] == field:
        return e[:2] + (e[2][:-1],)
    if e[0] == "call" and e[4] and e[4][-1] == field:
        return e[:4] + (e[4][:-1],)
    return None


def make_immut_guard(owner=None):
    """owner: expression of the entity whose QoS is stored; the `enabled` flag that exempts from the immutability test must be
    that entity's own flag (a writer enabled on its own under a disabled publisher is an enabled entity)"""
    def immut_guard(e, outcome, ce):
        e0 = E.strip_casts(e)
        if e0[0] == "discr":
            sc = e0[1]
            if E.is_call(sc, "Try::branch") and sc[2] and E.is_call(E.strip_casts(sc[2][0]), "check_immutability") and not sc[4]:
                return outcome == 0
        # not enabled: immutability does not apply
        if e0[0] in ("param", "local", "call") and E.mentions_field(e0, "enabled"):
            if owner is not None:
                o2 = _owner(e0, "enabled")
                if o2 is not None and not E.same(o2, owner):
                    return False
            return outcome == "false"
        return False
    return immut_guard


immut_guard = make_immut_guard()


def run(ctx, rep):
    fx = ctx.facts
    cons, imm = qos_types(fx)
    rep.note("QoS types with is_consistent: %s ; with check_immutability: %s" % (sorted(cons), sorted(imm)))
    n = 0
    for b in fx.bodies.values():
        if b.kind != "AssocFn" or short_ty(b.impl_self or "") not in ("DcpsDomainParticipant", "DcpsParticipantFactory"):
            continue
        nm = b.item_name or ""
        if not (nm.startswith("set_") and nm.endswith("_qos") or nm.startswith("create_")):
            continue
        fc = FnCtx(b)
        m = fc.mir
        add = adder(rep, b)
        events = []   # (bb, line, type, value expr, what)
        owners = {}   # bb of a plain store -> expression of the entity written
        for bb, i, s in m.stmts():
            if s.kind == "assign" and s.lhs.proj and s.lhs.proj[-1][0] == "field":
                f = s.lhs.proj[-1][4]
                ty = short_ty(s.lhs.proj[-1][5])
                if (f == "qos" or (f.startswith("default_") and f.endswith("_qos"))) and ty in cons:
                    events.append((bb, s.line, ty, fc.rv_expr(s), "store into ." + f))
                    try:
                        pl = Place([s.lhs.local, [list(x) for x in s.lhs.proj[:-1]]])
                        owners[bb] = fc.eb.place(pl, 0)
                    except Exception:
                        pass
        # a QoS field overwritten through mem::replace / mem::swap is a store as well
        for bb, t in m.calls():
            if t.callee.indirect or t.callee.method() not in ("replace", "swap") or "mem" not in (t.callee.best_name() or "") or not t.args:
                continue
            a0 = E.strip_casts(fc.arg(t, 0))
            if a0[0] in ("param", "local", "call") and (a0[2] if a0[0] != "call" else a0[4]):
                f = (a0[2] if a0[0] != "call" else a0[4])[-1]
                ty = None
                pl = t.args[0].place
                # the type of the replaced field: look at the referenced place's last field projection through the defining ref
                cur = pl
                for _ in range(5):
                    if cur is None:
                        break
                    if cur.proj and cur.proj[-1][0] == "field":
                        ty = short_ty(cur.proj[-1][5])
                        break
                    ds = [d for d in m.whole_defs(cur.local) if d[0] == "s" and d[3].rv is not None and d[3].rv.place is not None]
                    cur = ds[0][3].rv.place if len(ds) == 1 else None
                if (f == "qos" or (f.startswith("default_") and f.endswith("_qos"))) and ty in cons:
                    events.append((bb, t.line, ty, fc.arg(t, 1) if len(t.args) > 1 else ("rv", "?"), "store into .%s (mem::%s)" % (f, t.callee.method())))
        if nm.startswith("create_"):
            for bb, t in m.calls():
                if t.callee.indirect or t.callee.method() != "new":
                    continue
                tgt = fx.bodies.get(t.callee.res_id or "")
                if tgt is None or not tgt.inputs:
                    continue
                for k, ity in enumerate(tgt.inputs):
                    if short_ty(ity) in cons and k < len(t.args):
                        events.append((bb, t.line, short_ty(ity), fc.arg(t, k), "constructor argument of %s" % short_ty(tgt.impl_self or "?")))
        for bb, line, ty, val, what in events:
            n += 1
            from_default = (E.mentions_field(val, "default_datawriter_qos") or E.mentions_field(val, "default_datareader_qos")
                            or E.mentions_field(val, "default_topic_qos")) and val[0] != "local"
            found = fc.reach_avoiding([bb], consistent_guard(lambda p: 'QosKind' in m.locals[p[1]]))
            # a value that can only be the validated default needs no second validation; a `match QosKind` join is a local
            add("R37a", "%s (%s) only after is_consistent() succeeded" % (what, ty), bb not in found or from_default,
                "an inconsistent %s is accepted: %s is reachable without is_consistent() == Ok" % (ty, what), line)
            if nm.startswith("set_") and not nm.startswith("set_default") and ty in imm:
                found2 = fc.reach_avoiding([bb], make_immut_guard(owners.get(bb)))
                add("R37a", "%s (%s) only after check_immutability() on an enabled entity" % (what, ty), bb not in found2,
                    "an immutable policy can be changed on an enabled entity", line)
            if nm in ANNOUNCE:
                ann = [b2 for b2, t2 in fc.calls(ANNOUNCE[nm])]
                add("R37d", "accepted QoS change is announced (%s)" % ANNOUNCE[nm], bool(ann) and any(a in m.reachable(bb) for a in ann),
                    "the new QoS is stored but %s is never called: remote participants keep matching against the old QoS" % ANNOUNCE[nm], line)
    rep.floor("R37a", n, 8, "QoS stores in set_*_qos / create_* functions")
    # R37e
    k = 0
    for ty, want in IMMUTABLE.items():
        fns = [b for b in fx.bodies.values() if b.kind == "AssocFn" and b.item_name == "check_immutability" and short_ty(b.impl_self or "") == ty]
        for b in fns:
            k += 1
            fc = FnCtx(b)
            got = compared_param_fields(fc)
            rep.add("R37e", b.sname, "immutable policies of %s are all compared" % ty, want <= got,
                    "not compared: %s" % sorted(want - got), b.loc())
    rep.floor("R37e", k, 3, "check_immutability functions")
    # R37f: the consistency relations DDS 1.4 states unconditionally (2.2.3: RESOURCE_LIMITS max_samples >= max_samples_per_instance;
    # DEADLINE period >= TIME_BASED_FILTER minimum_separation) are tested on every path to a success exit of is_consistent —
    # an early `return Ok(())` in a match arm must not skip them. (The HISTORY depth test applies to KEEP_LAST only.)
    REQUIRED = {"DataReaderQos": [("period", "minimum_separation"), ("max_samples", "max_samples_per_instance")],
                "DataWriterQos": [("max_samples", "max_samples_per_instance")],
                "TopicQos": [("max_samples", "max_samples_per_instance")]}
    kf = 0
    for b in fx.bodies.values():
        if b.kind != "AssocFn" or b.item_name != "is_consistent" or short_ty(b.impl_self or "") not in REQUIRED:
            continue
        fc = FnCtx(b)
        m = fc.mir
        oks = [bb for bb, i, s in fc.aggregates("Result", "Ok")]
        for f1, f2 in REQUIRED[short_ty(b.impl_self)]:
            tests = []
            for sb, ce in fc.ces.items():
                c = cmp_norm(E.strip_casts(ce.expr))
                if c and ((E.mentions_field(c[1], f1) and E.mentions_field(c[2], f2)) or (E.mentions_field(c[1], f2) and E.mentions_field(c[2], f1))):
                    tests.append(sb)
            kf += 1
            ok = bool(tests) and bool(oks) and all(any(m.dominates(t, o) for t in tests) for o in oks)
            rep.add("R37f", b.sname, "%s vs %s is tested on every path to Ok(())" % (f1, f2), ok,
                    "a success exit (line %s) is reachable without the %s / %s consistency test: an inconsistent %s is accepted by create_*, set_qos and set_default_*_qos"
                    % ([m.blocks[o].term.line for o in oks if not any(m.dominates(t, o) for t in tests)][:2], f1, f2, short_ty(b.impl_self)), b.loc())
    rep.floor("R37f", kf, 4, "unconditional consistency relations")
