"""C22 — Instance and view states follow the DDS instance life cycle (decision-table extraction).

R22a  the complete decision table of InstanceState::update_state — (instance_state x view_state x
      change_kind) -> (instance_state', view_state', generation counter incremented) — is extracted by
      enumerating the acyclic paths of its MIR and evaluating each path condition on the 3x2x5 enum
      combinations (the function is an acyclic switch-tree over field-less enums), and compared with the
      DDS 1.4 §2.2.2.5.1 life cycle: dispose -> NOT_ALIVE_DISPOSED, unregister -> NOT_ALIVE_NO_WRITERS,
      a later ALIVE sample revives the instance and increments the matching generation count, and the
      view state becomes NEW exactly when the instance is reborn (only mark_viewed makes it NOT_NEW).
R22b  update_state is applied only to changes that are accepted: no call to it lies on a path that
      afterwards returns NotAdded / Rejected.
R22c  writer side: unregister emits NotAliveDisposedUnregistered iff autodispose_unregistered_instances.
R22s  the change kind survives the wire: the status-info constant that CacheChange::as_data_submessage writes for each
      ChangeKind arm (its byte value is read from the constant's own MIR body) is the value that the decoder's table in
      CacheChange::try_from_data_submessage maps back to the same variant (encoder / decoder sibling tables).
"""
from vplib import expr as E
from vplib.facts import path_endswith, short_ty
from vplib.patheval import PathEvaluator
from rules.common import FnCtx, cmp_norm, adder

TECHNIQUE = "finite decision-table extraction from MIR paths (path conditions over field-less enums) compared with a transcribed specification table"
ASSUMPTIONS = ["DDS 1.4 §2.2.2.5.1.3/§2.2.2.5.1.8 transcribed below; AliveFiltered is treated like a sample that does not revive an instance (either outcome accepted)"]

IS = ("Alive", "NotAliveDisposed", "NotAliveNoWriters")
VS = ("New", "NotNew")
CK = ("Alive", "AliveFiltered", "NotAliveDisposed", "NotAliveUnregistered", "NotAliveDisposedUnregistered")


def expected(i, v, c):
    ni, gen = i, None
    if i == "Alive":
        if c in ("NotAliveDisposed", "NotAliveDisposedUnregistered"):
            ni = "NotAliveDisposed"
        elif c == "NotAliveUnregistered":
            ni = "NotAliveNoWriters"
    elif c == "Alive":
        ni = "Alive"
        gen = "most_recent_disposed_generation_count" if i == "NotAliveDisposed" else "most_recent_no_writers_generation_count"
    reborn = i != "Alive" and ni == "Alive"
    nv = "New" if (v == "New" or reborn) else "NotNew"
    return ni, nv, gen


def variant_index(fx, adt, name):
    a = fx.adt(adt)
    for k, v in enumerate(a["variants"]):
        if v["name"] == name:
            return v["discr"] if v.get("discr") is not None else k
    return None


def sat(fx, constraints, i, v, c):
    for ce, val in constraints:
        e = ce
        if e[0] == "discr":
            sc = e[1]
            if sc[0] == "param" and sc[2][-1:] == ("instance_state",):
                cur = variant_index(fx, "InstanceStateKind", i)
            elif sc[0] == "param" and sc[2][-1:] == ("view_state",):
                cur = variant_index(fx, "ViewStateKind", v)
            elif sc[0] == "param" and not sc[2] and sc[1] == 2:
                cur = variant_index(fx, "ChangeKind", c)
            else:
                continue   # unrelated (Option<Time> etc.)
            kind, vals = val
            if kind == "in" and cur not in vals:
                return False
            if kind == "notin" and cur in vals:
                return False
        else:
            cn = cmp_norm(e)
            if cn and cn[0] in ("Eq", "Ne"):
                a, b = cn[1], cn[2]
                for x, y in ((a, b), (b, a)):
                    if x == ("param", 2, ()) and y[0] == "adt" and path_endswith(y[1], "ChangeKind"):
                        truth = (c == y[2]) if cn[0] == "Eq" else (c != y[2])
                        if truth != bool(val):
                            return False
    return True


def table(fx, rep):
    b = fx.fn("InstanceState", "update_state")
    pe = PathEvaluator(b.mir, b, max_paths=4096)
    paths = pe.paths()
    add = adder(rep, b)
    add("R22a", "update_state is an acyclic switch tree (paths enumerable)", 0 < len(paths) < 4096, "%d paths" % len(paths))
    n = 0
    for i in IS:
        for v in VS:
            for c in CK:
                outs = set()
                for env, trail in paths:
                    if not sat(fx, env.constraints, i, v, c):
                        continue
                    ni, nv, gen = i, v, []
                    for k, e in env.env.items():
                        if isinstance(k, tuple) and k[0] == "field" and k[1] == 1:
                            f = k[-1]
                            if f == "instance_state" and e[0] == "adt":
                                ni = e[2]
                            elif f == "view_state" and e[0] == "adt":
                                nv = e[2]
                            elif f.endswith("generation_count"):
                                gen.append(f)
                    outs.add((ni, nv, tuple(sorted(gen))))
                n += 1
                ei, ev, eg = expected(i, v, c)
                want = (ei, ev, (eg,) if eg else ())
                ok = outs == {want}
                if c == "AliveFiltered" and len(outs) == 1:
                    # either "like Alive" or "no effect" is accepted for filtered samples
                    alt = expected(i, v, "Alive")
                    ok = ok or outs == {(alt[0], alt[1], (alt[2],) if alt[2] else ())}
                add("R22a", "(%s, %s) x %s" % (i, v, c), ok,
                    "update_state yields %s, DDS life cycle requires (%s, %s%s)" % (sorted(outs), ei, ev, ", +" + eg if eg else ""))
    # mark_viewed is the only way to NOT_NEW
    for ob in fx.bodies.values():
        if ob.is_fn_like() and ob.writes_field("InstanceState", "view_state"):
            fc = FnCtx(ob)
            for bb, k, s in fc.field_writes("InstanceState", "view_state"):
                e = fc.rv_expr(s)
                if e[0] == "adt" and e[2] == "NotNew":
                    rep.add("R22a", ob.sname, "view state becomes NOT_NEW only in mark_viewed", ob.item_name == "mark_viewed",
                            "NOT_NEW assigned outside mark_viewed", ob.loc(s.line))
    return n


def applied_once(fx, rep):
    b = fx.fn("DataReaderEntity", "add_reader_change")
    fc = FnCtx(b)
    m = fc.mir
    add = adder(rep, b)
    # (a call made inside a closure handed to Option::map / and_then counts where the combinator is called)
    ups = [(bb, t) for bb, t, inner, kf in fc.calls_with_closures(fx, "InstanceState::update_state")]
    bad_results = []
    for bb, i, s in m.stmts():
        if s.kind == "assign" and s.rv.is_adt("AddChangeResult") and s.rv.agg["variant"] in ("NotAdded", "Rejected"):
            bad_results.append((bb, s.rv.agg["variant"], s.line))
    n = 0
    for ub, t in ups:
        n += 1
        r = m.reachable(ub)
        hit = sorted({(v, ln) for bb, v, ln in bad_results if bb in r})
        add("R22b", "update_state is applied only to changes that end up stored", not hit,
            "the instance state is updated and the function can still return %s: a sample dropped by the ownership / time filter / "
            "resource limits changes the instance state (and generation counts) seen by the application" % ", ".join("%s (line %s)" % h for h in hit[:4]),
            t.line)
    # R22d: the generation counts stored with the sample are read after this change has been applied to the instance:
    # the sample that revives an instance must carry the incremented count (it belongs to the new generation)
    snaps = [(bb, s) for bb, i, s in fc.aggregates("ReaderSample") if "disposed_generation_count" in (s.rv.agg.get("fields") or [])]
    ub = [bb for bb, _ in ups]
    # a path that builds Err(..) leaves through `?` and never reaches the snapshot (the CFG alone does not know that)
    errs = [bb for bb, i, s in fc.aggregates("Result", "Err")]
    for bb, s in snaps:
        add("R22d", "the sample's generation counts are read after update_state has been applied for this change", bool(ub) and bb not in m.reachable(0, removed_blocks=ub + errs),
            "a path builds the ReaderSample (snapshot of disposed / no_writers generation counts) without a preceding update_state: the first sample after a rebirth would report the previous generation",
            s.line)
    rep.floor("R22d", len(snaps), 1, "ReaderSample constructions in add_reader_change")
    return n


def writer_unregister(fx, rep):
    b = fx.fn("DataWriterEntity", "unregister_w_timestamp")
    fc = FnCtx(b)
    add = adder(rep, b)
    g_true = fc.guards(lambda ce: "true" if E.mentions_field(ce.expr, "autodispose_unregistered_instances") and ce.true_target is not None else None)
    g_false = fc.guards(lambda ce: "false" if E.mentions_field(ce.expr, "autodispose_unregistered_instances") and ce.true_target is not None else None)
    du = [bb for bb, i, s in fc.aggregates("ChangeKind", "NotAliveDisposedUnregistered")]
    u = [bb for bb, i, s in fc.aggregates("ChangeKind", "NotAliveUnregistered")]
    add("R22c", "NotAliveDisposedUnregistered iff autodispose_unregistered_instances", bool(du) and bool(g_true) and fc.only_through(du, g_true),
        "kind not tied to the autodispose flag")
    add("R22c", "NotAliveUnregistered otherwise", bool(u) and bool(g_false) and fc.only_through(u, g_false), "kind not tied to the autodispose flag")
    d = fx.fn("DataWriterEntity", "dispose_w_timestamp")
    df = FnCtx(d)
    adder(rep, d)("R22c", "dispose emits NotAliveDisposed", bool(df.aggregates("ChangeKind", "NotAliveDisposed")), "no NotAliveDisposed change")


def _const_last_byte(fx, def_id):
    """value of the last element of the byte array a `const X: StatusInfo = StatusInfo([..])` item is built from"""
    cb = fx.bodies.get(def_id)
    if cb is None:
        return None
    for bb, i, st in cb.mir.stmts():
        if st.rv is not None and st.rv.kind == "aggregate" and st.rv.agg.get("k") == "array" and st.rv.ops:
            c = st.rv.ops[-1].const
            if c is not None and isinstance(c.get("v"), int) and all(o.const is not None and o.const.get("v") == 0 for o in st.rv.ops[:-1]):
                return c["v"]
    return None


def status_info_tables(fx, rep):
    enc = fx.fn("CacheChange", "as_data_submessage")
    dec = fx.fn("CacheChange", "try_from_data_submessage")
    em, dm = enc.mir, dec.mir
    # decoder: switch on a byte of the received status info -> ChangeKind built in the arm
    dtab = {}
    for bb, blk in enumerate(dm.blocks):
        t = blk.term
        if t.kind != "switch" or t.discr is None or t.discr.place is None or len(t.arms) < 2:
            continue
        if not any(p[0] == "cindex" for p in t.discr.place.proj):
            continue
        for v, tgt in t.arms:
            cur, seen = tgt, 0
            while cur is not None and seen < 4:
                hit = [st for st in dm.blocks[cur].stmts if st.rv is not None and st.rv.is_adt("ChangeKind")]
                if hit:
                    dtab[v] = (hit[0].rv.agg["vidx"], hit[0].rv.agg["variant"])
                    break
                nx = dm.succ(cur)
                cur = nx[0] if len(nx) == 1 else None
                seen += 1
    # encoder: arm of a switch on the ChangeKind discriminant -> status-info constant used only in that arm
    n = 0
    add = adder(rep, enc)
    for bb, blk in enumerate(em.blocks):
        t = blk.term
        if t.kind != "switch" or not any(st.rv is not None and st.rv.kind == "discr" and str(st.rv.ty or "").split("::")[-1] == "ChangeKind" for st in blk.stmts):
            continue
        targets = {}
        for v, tgt in t.arms:
            targets.setdefault(tgt, []).append(v)
        for tgt, vals in targets.items():
            others = set()
            for o in targets:
                if o != tgt:
                    others |= em.reachable(o)
            if t.otherwise is not None and t.otherwise != tgt:
                others |= em.reachable(t.otherwise)
            own = em.reachable(tgt) - others
            for ob in sorted(own):
                for st in em.blocks[ob].stmts:
                    if st.rv is None:
                        continue
                    for o in st.rv.ops:
                        c = o.const
                        if c is None or not c.get("def") or short_ty(str(c.get("ty") or "")) != "StatusInfo":
                            continue
                        byte = _const_last_byte(fx, c["def"])
                        for v in vals:
                            n += 1
                            back = dtab.get(byte)
                            add("R22s", "status info written for ChangeKind variant #%d is decoded back to the same variant" % v,
                                byte is not None and back is not None and back[0] == v,
                                "the encoder writes %s (last byte %s) for variant #%d, the decoder maps that value to %s" % (c.get("def_name"), byte, v, back),
                                st.line)
    rep.floor("R22s-dec", len(dtab), 3, "status-info values the decoder maps to a ChangeKind")
    return n


def run(ctx, rep):
    fx = ctx.facts
    ns = status_info_tables(fx, rep)
    rep.floor("R22s", ns, 3, "status-info constants written per ChangeKind arm")
    n = table(fx, rep)
    rep.floor("R22a", n, 30, "decision-table rows of update_state")
    k = applied_once(fx, rep)
    rep.floor("R22b", k, 2, "update_state call sites in add_reader_change")
    writer_unregister(fx, rep)
