"""C25 — Time-based filter drops samples closer than minimum_separation (structural clauses only).

The numeric relation between the timestamps of the samples a reader presents is a property of histories and is not decided.
Decided are three necessary conditions visible in DataReaderEntity::add_reader_change:

R25a  the reference time of the separation test survives the removal of samples: it is kept in per-instance state, not recomputed
      from the samples that happen to be stored (take() and KEEP_LAST eviction remove stored samples; a reference computed from
      sample_list forgets what was already presented)
R25b  a sample is dropped by the filter (NotAdded) only on the false edge of `separation >= minimum_separation`; the comparison is
      non-strict, so samples exactly minimum_separation apart are kept
R25c  the reference is taken from samples / state of the same instance only
"""
from vplib import expr as E
from rules.common import FnCtx, adder, cmp_norm, closure_bodies_in

TECHNIQUE = "provenance of the reference timestamp (field / collection it is derived from) and guard dominance of the filter's NotAdded in MIR"
ASSUMPTIONS = ["timing of arrivals and the numeric separation are not modelled"]


def run(ctx, rep):
    fx = ctx.facts
    b = fx.fn("DataReaderEntity", "add_reader_change")
    fc = FnCtx(b)
    add = adder(rep, b)
    seps = []

    class _CE:   # the comparison may be stored in a bool that is tested later: only its block and normal form are needed here
        def __init__(self):
            self.false_target = None
    for sb, ce in fc.ces.items():
        c = cmp_norm(E.strip_casts(ce.expr))
        if c and (E.mentions_field(c[1], "minimum_separation") or E.mentions_field(c[2], "minimum_separation")) and ce.true_target is not None:
            seps.append((sb, ce, c))
    if not seps:
        for bb, t in fc.mir.calls():
            if t.callee.indirect or t.callee.method() not in ("ge", "gt", "le", "lt") or len(t.args) != 2:
                continue
            e = fc.eb.call(t, bb, 0)
            c = cmp_norm(E.strip_casts(e))
            if c and (E.mentions_field(c[1], "minimum_separation") or E.mentions_field(c[2], "minimum_separation")):
                seps.append((bb, _CE(), c))
    rep.floor("R25b", len(seps), 1, "comparisons against time_based_filter.minimum_separation")
    for sb, ce, c in seps:
        op, x, y = c
        sep_left = E.mentions_field(y, "minimum_separation")
        sep = x if sep_left else y
        eff = op if sep_left else {"Ge": "Le", "Le": "Ge", "Gt": "Lt", "Lt": "Gt"}.get(op, op)
        add("R25b", "samples at least minimum_separation apart pass: the test is `separation >= minimum_separation`", eff == "Ge",
            "comparison is `separation %s minimum_separation`" % eff, fc.mir.blocks[sb].term.line)
        # provenance of the reference time inside the separation expression (locals assigned on several paths are followed)
        def expand(e, depth=0, seen=None):
            seen = seen if seen is not None else set()
            out = [e]
            for x in E.walk(e):
                if x[0] == "local" and not x[2] and x[1] not in seen and depth < 6:
                    seen.add(x[1])
                    for d in fc.mir.whole_defs(x[1]):
                        out += expand(fc._def_expr(d), depth + 1, seen)
            return out
        parts = expand(sep)
        uses_list = any(E.mentions_field(p, "sample_list") for p in parts)
        uses_state = any(E.mentions_field(p, "instances") for p in parts)
        sep_closures = [cb for p in parts for cb in closure_bodies_in(fx, fc, p)]
        add("R25a", "the reference time of the separation test is kept per instance and survives take() / eviction", uses_state and not uses_list,
            "the reference is the newest earlier timestamp among the samples still stored in sample_list: once the application takes a sample (or KEEP_LAST evicts it) the next "
            "sample of the instance is accepted however close it is, and an out-of-order earlier sample is never compared with the stored later one",
            fc.mir.blocks[sb].term.line)
        okc = False
        for cb in sep_closures:
            kf = FnCtx(cb)
            for bb, i, s in kf.mir.stmts():
                if s.kind == "assign" and s.rv is not None and s.rv.kind == "binop" and s.rv.op == "Eq":
                    e = kf.rv_expr(s)
                    if E.mentions_field(e[2], "instance_handle") and E.mentions_field(e[3], "instance_handle"):
                        okc = True
            for bb, t in kf.mir.calls():
                if not t.callee.indirect and t.callee.method() == "eq" and len(t.args) == 2 and all(E.mentions_field(kf.arg(t, i), "instance_handle") for i in (0, 1)):
                    okc = True
        add("R25c", "the reference time comes from the same instance", okc or (uses_state and not uses_list), "no instance_handle equality in the reference selection", fc.mir.blocks[sb].term.line)
    # R25d / R25e: the reference is the last sample that was *presented*: it is written only by add_reader_change, only on a path
    # that ends in Added (never followed by a rejection), only forwards in time — and nowhere else (not reset on rebirth)
    REF = "last_accepted_source_timestamp"
    nw = 0
    for ob in fx.bodies.values():
        if not ob.is_fn_like() or "::tests::" in ob.sname or not ob.sum_writes or not any(f == REF for a, f in ob.sum_writes):
            continue
        of = FnCtx(ob)
        for bb, i, s in of.field_writes(None, REF):
            nw += 1
            here = ob.id == b.id
            adder(rep, ob)("R25e", "the filter reference is written only while a sample is being accepted (add_reader_change)", here,
                           "%s is written in %s: the reference of the separation test changes without a sample having been presented (e.g. reset when the instance is reborn)" % (REF, ob.sname.split("::")[-1]),
                           s.line)
            if not here:
                continue
            m = of.mir
            r = m.reachable(bb)
            bad = [(x, s2.rv.agg.get("variant")) for x, j, s2 in m.stmts() if s2.kind == "assign" and s2.rv is not None and s2.rv.is_adt("AddChangeResult") and s2.rv.agg.get("variant") in ("Rejected", "NotAdded") and x in r]
            add("R25d", "the reference is recorded only for a sample that ends up stored (no rejection can follow)", not bad,
                "after recording the reference the function can still return %s: a sample that was never presented becomes the reference and later samples far enough from everything presented are filtered" % sorted({v for _, v in bad}),
                s.line)
            def fwd(op, x, y):
                if E.mentions_field(y, REF) and E.mentions_field(x, "source_timestamp"):
                    return {"Gt": "true", "Le": "false"}.get(op)
                if E.mentions_field(x, REF) and E.mentions_field(y, "source_timestamp"):
                    return {"Lt": "true", "Ge": "false"}.get(op)
                return None
            g2 = of.cmp_guards(fwd)
            add("R25d", "the reference only moves forward in time", bool(g2) and of.only_through([bb], g2), "write is not guarded by sample.source_timestamp > reference", s.line)
    rep.floor("R25e", nw, 1, "writes to the filter reference")
    # NotAdded of the filter only behind the false edge
    drops = [(bb, s) for bb, i, s in fc.aggregates("AddChangeResult", "NotAdded")]
    g = [(sb, ce.false_target) for sb, ce, c in seps if ce.false_target is not None]

    def guard(e, outcome, ce):
        c = cmp_norm(E.strip_casts(e))
        return bool(c) and (E.mentions_field(c[1], "minimum_separation") or E.mentions_field(c[2], "minimum_separation")) and outcome == "false"
    # the drop that belongs to the filter is the one that tests the boolean assigned from the comparison
    flt = []
    for bb, s in drops:
        found = fc.reach_avoiding([bb], guard)
        if bb not in found:
            flt.append(bb)
    add("R25b", "a NotAdded exists that is reachable only when the separation test fails", bool(flt), "no drop is tied to the separation comparison")
