"""C13 — Discovery data round-trips through its parameter-list encoding.

Round-trip equality over all values is a runtime property and is not decided. Decided is the structural part whose violation
breaks the round trip: the writer's and the reader's parameter tables agree, the parameter-list walker treats ids exactly, and the
hand-written value codecs are inverse in shape.

R13a  per discovery type (participant, publication, subscription, topic): every (PID, field) pair `into_bytes` writes is read back by
      `from_bytes` into the field of the same name with the same PID, through the matching accessor family
      (write_xcdr1_parameter <-> get_*_parameter_xdcr, write_xcdr2_parameter <-> get_*_parameter_xdcr2, write_cdr_parameter <->
      get_*_parameter / get_locator_list)
R13b  omit-if-default agreement: a field `into_bytes` omits when it equals D is read by `from_bytes` with default D
R13c  parameter-list walker: the sentinel test compares the whole 16-bit id with PID_SENTINEL (no masking: 0x8001/0x4001 are vendor
      ids to be skipped, not sentinels); a non-matching id advances by length + 4 and continues; seek_to_pid / get_locator_list skip
      ids they do not look for
R13d  write_cdr_parameter pads the value to a multiple of 4 and writes the padded length into the 2 bytes before the value
R13e  hand-written TypeSupport pairs (create_sample / create_dynamic_sample) use the same member ids with the same value kinds;
      DurationKind::Infinite is produced only when both sec and nanosec equal the infinite constants, and written as exactly those
Not decided: values larger than the 16-bit parameter length (`length as u16`), equality of decoded and announced values.
"""
from vplib import expr as E
from vplib.facts import path_endswith
from rules.common import FnCtx, adder, cmp_norm
from rules import reach as RC

TECHNIQUE = "sibling cross-check of into_bytes / from_bytes PID tables and defaults over MIR; guard-shape rules for the parameter walker; member-id agreement of hand-written TypeSupport pairs"
ASSUMPTIONS = ["field names identify the announced attributes on both sides"]

TYPES = ("DiscoveredWriterData", "DiscoveredReaderData", "DiscoveredTopicData", "SpdpDiscoveredParticipantData")
FAMILY = {"write_xcdr1_parameter": ("get_optional_parameter_xdcr", "get_non_optional_parameter_xdcr"),
          "write_xcdr2_parameter": ("get_optional_parameter_xdcr2",),
          "write_cdr_parameter": ("get_optional_parameter", "get_non_optional_parameter", "get_locator_list")}
GETTERS = tuple(x for v in FAMILY.values() for x in v)


def last_field(e):
    e = E.strip_casts(e)
    # value read from self.<...>.<field> possibly through Some(..) / iteration / clone
    for x in E.walk(e):
        if x[0] == "param" and x[1] == 1 and x[2]:
            flds = [p for p in x[2] if not p.startswith("as ") and not p.startswith("[") and not p.isdigit()]
            if flds:
                return flds[-1]
    return None


def show_default(e, m):
    e = E.strip_casts(e)
    if e[0] == "call" and e[1].endswith("Default::default"):
        return "Default::default()"
    if e[0] == "call" and e[1].endswith("::default") and not e[2]:
        return "Default::default()"
    return E.show(e, m)


def encoder_table(fx, enc):
    fc = FnCtx(enc)
    out = []
    for bb, t in fc.mir.calls():
        if t.callee.indirect or t.callee.method() not in FAMILY:
            continue
        pid = E.strip_casts(fc.arg(t, 1))
        val = fc.arg(t, 2)
        fld = last_field(val)
        dflt = None
        for op, a, b in RC.dominating_facts(fc, bb):
            if op == "Ne" and last_field(a) == fld and fld is not None:
                dflt = show_default(b, fc.mir)
        out.append({"pid": pid[1] if pid[0] == "const" else E.show(pid, fc.mir), "field": fld, "how": t.callee.method(), "default": dflt, "line": t.line})
    return out, fc


def decoder_table(fx, dec):
    fc = FnCtx(dec)
    out = {}
    for bb, i, s in fc.mir.stmts():
        if s.kind != "assign" or s.rv is None or s.rv.kind != "aggregate" or s.rv.agg.get("k") != "adt" or not s.rv.agg.get("fields"):
            continue
        if str(s.rv.agg.get("adt", "")).startswith("std::") or str(s.rv.agg.get("adt", "")).startswith("core::"):
            continue
        e = fc.rv_expr(s)
        for f, v in zip(s.rv.agg["fields"], e[3]):
            v0 = E.strip_casts(v)
            call = None
            # the getter is the value itself, through `?` / unwrap_or_default / unwrap_or
            cur = v0
            for _ in range(4):
                if cur[0] == "call" and cur[1].split("::")[-1] in GETTERS:
                    call = cur
                    break
                if cur[0] == "call" and (E.is_call(cur, "Try::branch") or cur[1].split("::")[-1] in ("unwrap_or_default", "unwrap_or", "ok", "flatten", "unwrap_or_else")) and cur[2]:
                    cur = E.strip_casts(cur[2][0])
                    continue
                break
            if call is None:
                # the same written out: `match getter(..) { Ok(x) => Some(x), Err(_) => None }`, a value bound to a local first
                from rules.common import leaf_defs
                for leaf in leaf_defs(fc, v0):
                    cur = leaf
                    for _ in range(5):
                        if cur[0] == "adt" and cur[2] in ("Some", "Ok") and cur[3]:
                            cur = E.strip_casts(cur[3][0])
                        elif cur[0] == "call" and cur[1].split("::")[-1] in GETTERS:
                            call = cur
                            break
                        elif cur[0] == "call" and (E.is_call(cur, "Try::branch") or cur[1].split("::")[-1] in ("unwrap_or_default", "unwrap_or", "ok", "flatten", "unwrap_or_else")) and cur[2]:
                            cur = E.strip_casts(cur[2][0])
                        else:
                            break
                    if call is not None:
                        break
            if call is None:
                continue
            pid = E.strip_casts(call[2][1]) if len(call[2]) > 1 else ("rv", "?")
            dflt = show_default(call[2][2], fc.mir) if len(call[2]) > 2 else None
            out[f] = {"pid": pid[1] if pid[0] == "const" else E.show(pid, fc.mir), "how": call[1].split("::")[-1], "default": dflt, "line": s.line}
    return out, fc


def run(ctx, rep):
    fx = ctx.facts
    n_pairs = 0
    for ty in TYPES:
        encs = [b for b in fx.bodies.values() if b.item_name == "into_bytes" and b.is_fn_like() and (b.impl_self or "").split("::")[-1] == ty and "::tests::" not in b.sname]
        decs = [b for b in fx.bodies.values() if b.item_name == "from_bytes" and b.is_fn_like() and (b.impl_self or "").split("::")[-1] == ty and "::tests::" not in b.sname]
        if len(encs) != 1 or len(decs) != 1:
            rep.add("R13a", ty, "one into_bytes and one from_bytes", False, "found %d / %d" % (len(encs), len(decs)))
            continue
        et, efc = encoder_table(fx, encs[0])
        dt, dfc = decoder_table(fx, decs[0])
        add = adder(rep, encs[0])
        for r in et:
            n_pairs += 1
            f = r["field"]
            d = dt.get(f)
            desc = "%s.%s (PID 0x%04x)" % (ty, f, r["pid"] & 0xffff) if isinstance(r["pid"], int) else "%s.%s (PID %s)" % (ty, f, r["pid"])
            if f is None:
                add("R13a", "written parameter PID %s comes from a field of self" % r["pid"], False, "cannot tell which field is written", r["line"])
                continue
            if d is None:
                add("R13a", desc + " is read back into the same field", False, "from_bytes fills no field named %s from a parameter" % f, r["line"])
                continue
            add("R13a", desc + " is read back with the same PID", d["pid"] == r["pid"], "written with PID %s, read with PID %s" % (r["pid"], d["pid"]), r["line"])
            add("R13a", desc + " is read through the matching accessor family", d["how"] in FAMILY[r["how"]], "written by %s, read by %s" % (r["how"], d["how"]), r["line"])
            if r["default"] is not None:
                add("R13b", desc + " omitted when equal to the default the reader assumes", d["default"] == r["default"],
                    "omitted when == %s but read with default %s: an announced value equal to the writer's default decodes to something else" % (r["default"], d["default"]), r["line"])
    rep.floor("R13a", n_pairs, 70, "(PID, field) pairs written by the four discovery encoders")
    # R13c walker
    it = [b for b in fx.bodies.values() if b.item_name == "next" and "PidIterator" in (b.impl_self or "") and b.is_fn_like()]
    rep.floor("R13c", len(it), 1, "PidIterator::next")
    for b in it:
        fc = FnCtx(b)
        add = adder(rep, b)
        sent = []
        for sb, ce in fc.ces.items():
            c = cmp_norm(E.strip_casts(ce.expr))
            if c and c[0] in ("Eq", "Ne"):
                for x, y in ((c[1], c[2]), (c[2], c[1])):
                    y0 = E.strip_casts(y)
                    if y0 == ("const", 1):
                        sent.append((sb, E.strip_casts(x)))
        ok = bool(sent) and all(E.mentions_call(x, "cdr_deserialize") and not any(z[0] in ("bin", "ckd") and z[1] in ("BitAnd", "BitOr", "Shr", "Shl", "Rem") for z in E.walk(x)) for _, x in sent)
        add("R13c", "sentinel test compares the whole decoded id with PID_SENTINEL", ok,
            "the sentinel comparison is missing or is applied to a masked / shifted id (vendor-specific ids such as 0x8001 would end the list): %s" % [E.show(x, fc.mir)[:80] for _, x in sent])
        # position advances by length + 4
        w = fc.field_writes("PidIterator", "position")
        adv = False
        for bb, i, s in w:
            e = E.arith_norm(E.strip_casts(fc.rv_expr(s)))
            for z in E.walk(e):
                if z[0] in ("bin", "ckd") and z[1] == "Add" and ("const", 4) in (E.strip_casts(z[3]), E.strip_casts(z[2])):
                    adv = True
        add("R13c", "a parameter advances the position by its length + 4", adv, "position update is not `+= length + 4`")
    k = 0
    for name in ("seek_to_pid", "get_locator_list"):
        for b in fx.bodies.values():
            if b.item_name != name or not b.is_fn_like() or "rtps_data_representation::ParameterList" not in b.sname:
                continue
            k += 1
            fc = FnCtx(b)
            loops = fc.mir.natural_loops()
            ok = False
            for sb, ce in fc.ces.items():
                c = cmp_norm(E.strip_casts(ce.expr))
                if c and c[0] in ("Eq", "Ne") and ce.true_target is not None:
                    other = ce.false_target if c[0] == "Eq" else ce.true_target
                    for h, blocks in loops.items():
                        if sb in blocks and other in blocks:
                            ok = True
            adder(rep, b)("R13c", "%s skips parameters with other ids and keeps walking" % name, ok, "a non-matching id leaves the loop (unknown or vendor-specific parameters would abort the lookup)")
    rep.floor("R13c", k, 2, "parameter lookups")
    # R13d
    w = [b for b in fx.bodies.values() if b.item_name == "write_cdr_parameter" and b.is_fn_like()]
    rep.floor("R13d", len(w), 1, "write_cdr_parameter")
    for b in w:
        fc = FnCtx(b)
        pad = any(t.callee.method() == "div_ceil" and E.strip_casts(fc.arg(t, 1)) == ("const", 4) for bb, t in fc.mir.calls() if not t.callee.indirect and len(t.args) == 2)
        ln = False
        for bb, t in fc.calls("clone_from_slice", "copy_from_slice"):
            a = E.strip_casts(fc.arg(t, 0))
            for z in E.walk(a):
                if z[0] in ("bin", "ckd") and z[1] == "Sub" and E.strip_casts(z[3]) == ("const", 2):
                    ln = True
        adder(rep, b)("R13d", "value padded to a multiple of 4", pad, "no div_ceil(.., 4) padding")
        adder(rep, b)("R13d", "padded length written into the 2 bytes before the value", ln, "length is not stored at position-2..position")
    # R13e hand-written TypeSupport pairs
    pairs = 0
    for b in fx.bodies.values():
        if b.item_name != "create_sample" or not b.is_fn_like() or "::tests::" in b.sname:
            continue
        fc = FnCtx(b)
        if any(t.exp and any(str(x).startswith("dust_dds_derive::") for x in t.exp) for bb, t in fc.mir.calls()):
            continue
        sib = [x for x in fx.bodies.values() if x.item_name == "create_dynamic_sample" and x.impl_self == b.impl_self and x.is_fn_like()]
        if not sib or not b.impl_self:
            continue
        sf = FnCtx(sib[0])
        gets = {}
        for bb, t in fc.mir.calls():
            mth = t.callee.method()
            if not t.callee.indirect and mth.startswith("get_") and mth.endswith(("_value", "_values")) and len(t.args) >= 2:
                i = E.strip_casts(fc.arg(t, 1))
                if i[0] == "const":
                    gets[i[1]] = mth[4:]
        sets = {}
        for bb, t in sf.mir.calls():
            mth = t.callee.method()
            if not t.callee.indirect and mth.startswith("set_") and mth.endswith(("_value", "_values")) and len(t.args) >= 2:
                i = E.strip_casts(sf.arg(t, 1))
                if i[0] == "const":
                    sets[i[1]] = mth[4:]
        if not gets and not sets:
            continue
        pairs += 1
        adder(rep, b)("R13e", "%s: create_sample reads the member ids create_dynamic_sample writes, with the same value kinds" % b.impl_self.split("::")[-1],
                      gets == sets, "reads %s, writes %s" % (sorted(gets.items()), sorted(sets.items())))
    rep.floor("R13e", pairs, 3, "hand-written TypeSupport pairs")
    dk = [b for b in fx.bodies.values() if b.item_name == "create_sample" and (b.impl_self or "").endswith("DurationKind") and b.is_fn_like()]
    rep.floor("R13e", len(dk), 1, "DurationKind::create_sample")
    for b in dk:
        fc = FnCtx(b)
        inf = [bb for bb, i, s in fc.aggregates("DurationKind", "Infinite")]
        if not inf:
            # unit variant wrapped in Some(..): look for the Some aggregate whose payload is the Infinite variant
            for bb, i, s in fc.aggregates("Option", "Some"):
                e = fc.rv_expr(s)
                if e[3] and E.strip_casts(e[3][0])[0] == "adt" and E.strip_casts(e[3][0])[2] == "Infinite":
                    inf.append(bb)

        def g(field, const):
            def pred(op, a, c):
                a0, c0 = E.strip_casts(a), E.strip_casts(c)
                if a0[0] in ("param", "local", "call") and (E.mentions_field(a0, field) or (a0[0] == "call" and a0[4] and a0[4][-1] == field)) and c0[0] == "const" and c0[1] == const:
                    return {"Eq": "true", "Ne": "false"}.get(op)
                return None
            return fc.cmp_guards(pred)
        def arms(field, const):
            # `match d { CONST_PATTERN => .. }` lowers to integer switches on the fields
            out = []
            for sb, ce in fc.ces.items():
                e = E.strip_casts(ce.expr)
                last = e[2][-1] if e[0] in ("param", "local") and e[2] else (e[4][-1] if e[0] == "call" and e[4] else None)
                if ce.true_target is None and not ce.is_discr() and last == field:
                    for v, tgt in ce.arms:
                        if v == const:
                            out.append((sb, tgt))
            return out
        gs, gn = g("sec", 0x7fffffff) + arms("sec", 0x7fffffff), g("nanosec", 0xffffffff) + arms("nanosec", 0xffffffff)
        whole = [(sb, ce.true_target) for sb, ce in fc.ces.items() if ce.true_target is not None and E.is_call(E.strip_casts(ce.expr), "PartialEq::eq") and any(E.show(x, fc.mir).find("DURATION_INFINITE") >= 0 for x in E.strip_casts(ce.expr)[2])]
        ok = bool(inf) and ((bool(gs) and bool(gn) and fc.only_through(inf, gs) and fc.only_through(inf, gn)) or (bool(whole) and fc.only_through(inf, whole)))
        adder(rep, b)("R13e", "DurationKind::Infinite is decoded only from sec == 0x7fffffff and nanosec == 0xffffffff", ok,
                      "Infinite is reachable without comparing both components (a finite duration sharing one component with the infinite pattern would decode as Infinite); sec guards=%d nanosec guards=%d" % (len(gs), len(gn)))
