"""C18 — KEEP_LAST replaces the oldest sample instead of rejecting (structural).

R18a  Rejected(RejectedBySamplesPerInstanceLimit | RejectedBySamplesLimit) is constructed only after the
      discriminant of qos.history.kind has been examined (the KEEP_LAST eviction decision dominates the
      depth-related rejections)
R18b  eviction happens exactly when depth == alive samples of the instance, removes the first (oldest)
      alive sample of that instance, and always happens on that edge
R18c  KEEP_ALL never removes
"""
from rules import reader_entity as RE

TECHNIQUE = "MIR dominance (block removal) between the history-kind switch and the rejection constructions; guard dominance for eviction"
ASSUMPTIONS = ["samples are stored oldest-first per instance (ByReception) — position() finds the oldest"]


def run(ctx, rep):
    n, r = RE.c18(ctx.facts, rep)
    rep.floor("R18a", n, 2, "depth-related rejection constructions")
    rep.floor("R18b", r, 1, "removals from sample_list in add_reader_change")
