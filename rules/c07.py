"""C07 — Decoders are total: malformed bytes give errors, not panics or huge allocations.

Decided statically as a reachability property (T-REACH, rules/reach.py): from every decoder entry point, enumerate every
construct that can panic, abort on allocation, or loop in proportion to a decoded value, and discharge each one.

R07a  every panic / bounds / overflow / division / unwrap / wire-sized allocation / value-bounded loop site reachable from a
      decoder entry is discharged by a rule D1..D14 / DL1..DL4 (reach.py) or is in the reviewed table
      tables/accepted_sites_c07.json (function, coarse kind, count, reason)
R07b  struct invariants the discharge rules rely on hold at every construction site (numBits <= 256 for both number sets,
      ParameterList.data has at least 4 bytes)
R07c  number-set constructors are only fed bounded member sets: every caller of SequenceNumberSet::new / FragmentNumberSet::new
      passes an iterator cut by take(<=256) / take_while(x - base < 256), an empty set, or members re-derived from a decoded set

Entry points (E07): every `try_from_bytes`, `try_read_from_bytes`, `cdr_deserialize`, `from_bytes`,
`try_from_data_submessage`, `RtpsMessageRead::try_from`, `deserialize_top_level_type*`, `PidIterator::next`.
What is *not* decided: the numeric memory bound "small multiple of the input length" beyond "no allocation is sized by a decoded
integer without a min() against the bytes left".
"""
from vplib import expr as E
from rules.common import FnCtx
from rules import reach as RC

TECHNIQUE = ("call-graph reachability from decoder entry points over resolved MIR; per-site discharge by dominating-comparison / interval / "
             "bounded-iteration / struct-invariant rules; reviewed table (function, kind, count) for the remainder")
ASSUMPTIONS = ["64-bit target (usize sums of buffer lengths and zero-extended 32-bit values cannot overflow)",
               "panics inside core/alloc functions other than the enumerated indexers / unwraps / allocators are not modelled",
               "DynamicType values used for decoding come from local TypeSupport implementations, not from received TypeObjects"]


def entries(fx):
    out = []
    for b in fx.bodies.values():
        if b.kind not in ("Fn", "AssocFn") or "::tests::" in b.sname:
            continue
        n = b.item_name or ""
        if n in ("try_from_bytes", "try_read_from_bytes", "cdr_deserialize", "from_bytes", "try_from_data_submessage"):
            out.append(b.id)
        elif b.impl_trait and b.impl_trait.endswith("TryFrom") and "RtpsMessageRead" in (b.impl_self or ""):
            out.append(b.id)
        elif n.startswith("deserialize_top_level_type"):
            out.append(b.id)
        elif "PidIterator" in (b.impl_self or "") and n == "next":
            out.append(b.id)
    return out


def bounded_set_arg(cf, t):
    """the `set` argument of a number-set constructor is visibly bounded"""
    e = E.strip_casts(cf.arg(t, 1))
    for x in E.walk(e):
        if x[0] == "call" and x[1].endswith("Iterator::take") and len(x[2]) > 1:
            k = E.strip_casts(x[2][1])
            if k[0] == "const" and k[1] <= 256:
                return "take(%d)" % k[1]
    for x in E.walk(e):
        if x[0] == "call" and x[1].endswith("Iterator::take_while"):
            return "take_while"
    if e[0] in ("agg",) and not e[2]:
        return "empty"
    if e[0] == "call" and (e[1].endswith("Vec::new") or e[1].endswith("iter::empty")):
        return "empty"
    if e[0] == "adt" and not e[3]:
        return "empty"
    return None


def take_while_bound_ok(fx, cf, t):
    """for take_while: the closure compares `x - base < 256` (or <= 255)"""
    for k in fx.descendants(cf.body):
        if not k.kind.startswith("Closure"):
            continue
        kf = FnCtx(k)
        for sb, ce in kf.ces.items():
            pass
        # the closure body is a single comparison returned as bool: look for Lt(.. Sub .., 256)
        for bb, i, s in kf.mir.stmts():
            if s.kind == "assign" and s.rv is not None and s.rv.kind == "binop" and s.rv.op in ("Lt", "Le"):
                e = kf.rv_expr(s)
                a, b = E.strip_casts(e[2]), E.strip_casts(e[3])
                if ((a[0] in ("bin", "ckd") and a[1] == "Sub") or E.is_call(a, "Sub::sub")) and b[0] == "const" and ((s.rv.op == "Lt" and b[1] <= 256) or (s.rv.op == "Le" and b[1] <= 255)):
                    return True
    return False


def number_set_callers(fx, rep, rule):
    n = 0
    for ty in ("SequenceNumberSet", "FragmentNumberSet"):
        new = fx.fn(ty, "new")
        for c in fx.callers_of(new.id):
            if "::tests::" in c.sname or "::tests" in c.sname.split("::")[-2:]:
                continue
            cf = FnCtx(c)
            for bb, t in cf.mir.calls():
                if t.callee.indirect or t.callee.res_id != new.id:
                    continue
                n += 1
                how = bounded_set_arg(cf, t)
                ok = how is not None
                if how == "take_while":
                    ok = take_while_bound_ok(fx, cf, t)
                    how = "take_while(x - base < 256)" if ok else None
                if not ok and c.item_name == "try_read_from_bytes" and ty in (c.impl_self or c.sname):
                    # members re-derived from the decoded bitmap: base + delta with delta < numBits <= 256 (R07b)
                    ok, how = True, "members re-derived from a decoded set"
                rep.add(rule, c.sname, "%s::new receives a member set limited to 256 numbers from its base" % ty, ok,
                        ("bounded by %s" % how) if ok else "the set passed to %s::new is not visibly cut to 256 members: the constructor indexes an 8-word bitmap with (member - base) / 32 and panics beyond it" % ty,
                        c.loc(t.line))
    return n


def fixture(fxf):
    """T-REACH self-test on fixtures/vp_fixture/src/reach.rs: good_* fully discharged, bad_* keeps an undischarged site"""
    from vplib import report as R
    out = []
    for b in sorted(fxf.bodies.values(), key=lambda b: b.sname):
        if not b.is_fn_like() or "reach::" not in b.sname:
            continue
        nm = b.item_name or ""
        if not (nm.startswith("good_") or nm.startswith("bad_")):
            continue
        rep = R.Report("FIXTURE")
        RC.run_reach(fxf, rep, [b.id], "none.json", "RF")
        clean = all(o.ok for o in rep.obls)
        out.append(("reach." + nm, nm.startswith("good_"), clean))
    return out


def run(ctx, rep):
    fx = ctx.facts
    ent = entries(fx)
    rep.floor("R07a", len(ent), 45, "decoder entry points")
    sites, seen, groups = RC.run_reach(fx, rep, ent, "accepted_sites_c07.json", "R07a")
    rep.floor("R07a", len(sites), 250, "panic / allocation / loop sites reachable from the decoders")
    n = RC.check_field_invariants(fx, rep, "R07b")
    rep.floor("R07b", n, 5, "construction sites of types with a field invariant")
    k = number_set_callers(fx, rep, "R07c")
    rep.floor("R07c", k, 4, "callers of the number-set constructors")
