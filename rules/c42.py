"""C42 — std runtime timers and blocking helpers (guards only; thread timing is not decided).

R42a  Sleep::poll returns Ready only through is_elapsed()==true; is_elapsed is `now > deadline`;
      a pending poll hands cx.waker() to the timer thread; the deadline is set once (reset only when None)
R42b  dropping a Sleep sends Cancel(id); the timer thread's Cancel arm removes every heap entry with that id
R42c  the timer thread wakes an entry only when its deadline has passed, and the heap order is by
      earliest deadline (reversed Ord)
R42d  block_timeout returns Err(Timeout) only when recv_timeout failed or the budget is exhausted, and
      Ok(t) with the polled value
R42e  block_on returns the Ready payload and parks otherwise
"""
from vplib import expr as E
from vplib.facts import Place, path_endswith
from rules.common import FnCtx, cmp_norm, adder

TECHNIQUE = "MIR guard dominance and must-precede rules on Sleep::poll, the timer thread closure, block_timeout and block_on"
ASSUMPTIONS = ["std::time::Instant is monotone; std mpsc channels deliver in order"]


def field_of(e):
    if e[0] in ("param", "local") and e[2]:
        return e[2][-1]
    if e[0] == "call" and e[4]:
        return e[4][-1]
    return None


def sleep_rules(fx, rep):
    p = fx.fn("Sleep", "poll", trait="Future")
    fc = FnCtx(p)
    add = adder(rep, p)
    g = fc.guards(lambda ce: "true" if E.is_call(E.strip_casts(ce.expr), "Sleep::is_elapsed") else None)
    ready = [bb for bb, i, s in fc.aggregates("Poll", "Ready")]
    pend = [bb for bb, i, s in fc.aggregates("Poll", "Pending")]
    add("R42a", "Poll::Ready only when is_elapsed()", bool(ready) and bool(g) and fc.only_through(ready, g),
        "Sleep can complete without is_elapsed() being true (completes before its deadline)")
    sends = []
    for bb, t in fc.calls("Sender::send"):
        a = fc.arg(t, 1)
        if a[0] == "adt" and a[2] == "Wake" and E.mentions_call(a, "Context::waker"):
            sends.append(bb)
    add("R42a", "Pending only after handing cx.waker() to the timer thread", bool(pend) and all(b not in fc.mir.reachable(0, removed_blocks=sends) for b in pend),
        "a pending Sleep is not registered with the timer thread (never woken)")
    resets = [bb for bb, t in fc.calls("Sleep::reset")]
    gnone = fc.guards(lambda ce: "true" if (E.is_call(E.strip_casts(ce.expr), "Option::is_none") and field_of(E.strip_casts(ce.expr)[2][0]) == "deadline") else None)
    add("R42a", "deadline is armed only once (reset only when unset)", bool(resets) and bool(gnone) and fc.only_through(resets, gnone),
        "reset() reachable on every poll: the deadline keeps moving and the sleep may never complete")
    # deadline sent is the stored deadline
    e = fx.fn("Sleep", "is_elapsed")
    ef = FnCtx(e)
    ok = False
    for bb, i, s in ef.mir.stmts():
        pass
    for bb, t in ef.calls("PartialOrd::gt", "PartialOrd::lt", "PartialOrd::ge", "PartialOrd::le"):
        c = cmp_norm(ef.eb.call(t, bb, 0))
        if c:
            op, a, b = c
            now_l = E.mentions_call(a, "Instant::now")
            now_r = E.mentions_call(b, "Instant::now")
            dl_l = E.mentions_field(a, "deadline") or E.mentions_local_named(ef.mir, a, "d")
            dl_r = E.mentions_field(b, "deadline") or E.mentions_local_named(ef.mir, b, "d")
            if (now_l and dl_r and op in ("Gt", "Ge")) or (now_r and dl_l and op in ("Lt", "Le")):
                ok = True
            elif now_l or now_r:
                adder(rep, e)("R42a", "is_elapsed compares now against the deadline in the right direction", False,
                              "comparison is %s %s %s" % (ef.show(a)[:50], op, ef.show(b)[:50]), t.line)
    adder(rep, e)("R42a", "is_elapsed == (Instant::now() > deadline)", ok, "no such comparison")
    falses = [bb for bb, i, s in ef.mir.stmts() if s.kind == "assign" and s.lhs.is_local() and s.lhs.local == 0 and ef.rv_expr(s) == ("const", 0)]
    adder(rep, e)("R42a", "an unarmed sleep is not elapsed", bool(falses), "no false result for deadline == None")
    trues = [bb for bb, i, s in ef.mir.stmts() if s.kind == "assign" and s.lhs.is_local() and s.lhs.local == 0 and ef.rv_expr(s) == ("const", 1)]
    adder(rep, e)("R42a", "is_elapsed never returns a constant true", not trues, "constant true result")


def cancel_rules(fx, rep):
    d = fx.fn("Sleep", "drop", trait="Drop")
    fc = FnCtx(d)
    add = adder(rep, d)
    ok = False
    for bb, t in fc.calls("Sender::send"):
        a = fc.arg(t, 1)
        if a[0] == "adt" and a[2] == "Cancel" and a[3] and field_of(a[3][0]) == "id":
            ok = True
    add("R42b", "Drop for Sleep sends Cancel(self.id)", ok, "no Cancel(self.id) message on drop (a dropped sleep still wakes its task)")
    r = fx.fn("TimerHeap", "remove")
    rf = FnCtx(r)
    kids = fx.closure_of(r)
    okf = False
    for k in kids:
        kf = FnCtx(k)
        ret = kf.eb.place(Place([0, []]))
        c = cmp_norm(ret)
        if c and c[0] == "Ne" and (E.mentions_field(c[1], "id") or E.mentions_field(c[2], "id")):
            okf = True
    adder(rep, r)("R42b", "TimerHeap::remove keeps exactly the entries with a different id", okf and r.calls_any("Iterator::filter", "BinaryHeap::retain"),
                  "filter predicate is not `t.id != id`")
    # timer thread: Cancel arm calls remove; Wake arm pushes
    n = fx.fn("TimerDriver", "new", inherent=True)
    th = [k for k in fx.descendants(n) if k.calls_any("TimerHeap::remove")]
    adder(rep, n)("R42b", "timer thread handles Cancel by removing the entry", len(th) == 1, "no TimerHeap::remove in the timer thread")
    for k in th:
        kf = FnCtx(k)
        addk = adder(rep, k)
        rem = kf.calls("TimerHeap::remove")
        for bb, t in rem:
            a = kf.arg(t, 1)
            addk("R42b", "removed id is the Cancel payload", "as Cancel" in str(a), "remove(%s)" % kf.show(a)[:80], t.line)
        push = kf.calls("TimerHeap::push")
        addk("R42b", "Wake messages are queued", bool(push), "no TimerHeap::push")
        # R42c
        g = kf.guards(lambda ce: "true" if E.is_call(E.strip_casts(ce.expr), "TimerHeap::is_next_timer_elapsed") else None)
        nt = [bb for bb, t in kf.calls("TimerHeap::notify_next_timer")]
        addk("R42c", "timers are notified only while is_next_timer_elapsed()", bool(nt) and bool(g) and kf.only_through(nt, g),
             "notify_next_timer reachable without the elapsed test (a sleep completes early)")
    return len(th)


def heap_rules(fx, rep):
    e = fx.fn("TimerHeap", "is_next_timer_elapsed")
    ef = FnCtx(e)
    add = adder(rep, e)
    ok = False
    for bb, t in ef.calls("PartialOrd::lt", "PartialOrd::gt", "PartialOrd::le", "PartialOrd::ge"):
        c = cmp_norm(ef.eb.call(t, bb, 0))
        if c:
            op, a, b = c
            if E.mentions_field(a, "deadline") and E.mentions_call(b, "Instant::now") and op in ("Lt", "Le"):
                ok = True
            elif E.mentions_field(b, "deadline") and E.mentions_call(a, "Instant::now") and op in ("Gt", "Ge"):
                ok = True
            elif E.mentions_call(a, "Instant::now") or E.mentions_call(b, "Instant::now"):
                add("R42c", "elapsed test direction", False, "comparison %s %s %s" % (ef.show(a)[:40], op, ef.show(b)[:40]), t.line)
    add("R42c", "is_next_timer_elapsed == (peek().deadline < now)", ok and e.calls_any("BinaryHeap::peek"), "no such comparison on the heap top")
    c = fx.fn("TimerWake", "cmp", trait="Ord")
    cf = FnCtx(c)
    okc = False
    for bb, t in cf.calls("Ord::cmp"):
        a, b = cf.arg(t, 0), cf.arg(t, 1)
        if a[0] == "param" and b[0] == "param" and a[1] == 2 and b[1] == 1 and a[2][-1:] == ("deadline",) and b[2][-1:] == ("deadline",):
            okc = True
    adder(rep, c)("R42c", "heap order is earliest-deadline-first (reversed Ord on deadline)", okc,
                  "TimerWake::cmp is not other.deadline.cmp(&self.deadline): the max-heap would pop the latest deadline first")
    n = fx.fn("TimerHeap", "notify_next_timer")
    adder(rep, n)("R42c", "notify pops the heap top and wakes it", n.calls_any("BinaryHeap::pop") and n.calls_any("Waker::wake"), "pop/wake missing")


def block_rules(fx, rep):
    b = fx.fn(free="block_timeout")
    fc = FnCtx(b)
    add = adder(rep, b)
    polls = fc.calls("Future::poll")
    add("R42d", "block_timeout polls the future", bool(polls), "no poll")

    def tguard(ce):
        e = ce.expr
        if e[0] == "discr":
            sc = E.strip_casts(e[1])
            if E.is_call(sc, "Receiver::recv_timeout"):
                return 1
            if E.is_call(sc, "Duration::checked_sub"):
                return 0
        # the same decisions written with is_err() / is_ok() / is_none() / is_some()
        sc = E.strip_casts(e)
        neg = False
        while sc[0] == "un" and sc[1] == "Not":
            sc = E.strip_casts(sc[2])
            neg = not neg
        if sc[0] == "call" and sc[2] and ce.true_target is not None:
            inner = E.strip_casts(sc[2][0])
            pos = None
            if E.is_call(inner, "Receiver::recv_timeout"):
                pos = True if sc[1].endswith("::is_err") else (False if sc[1].endswith("::is_ok") else None)
            elif E.is_call(inner, "Duration::checked_sub"):
                pos = True if sc[1].endswith("::is_none") else (False if sc[1].endswith("::is_some") else None)
            if pos is not None:
                return "true" if pos != neg else "false"
        return None
    g = fc.guards(tguard)
    tm = [bb for bb, i, s in fc.aggregates("DdsError", "Timeout")]
    add("R42d", "Err(Timeout) only after recv_timeout failed or the budget is exhausted", bool(tm) and bool(g) and fc.only_through(tm, g),
        "Timeout reachable without a failed recv_timeout / exhausted checked_sub")
    rg = fc.guards(lambda ce: 0 if (ce.expr[0] == "discr" and E.is_call(E.strip_casts(ce.expr[1]), "Future::poll")) else None)
    oks = []
    for bb, i, s in fc.aggregates("Result", "Ok"):
        e = fc.rv_expr(s)
        if e[3] and E.mentions_call(e[3][0], "Future::poll"):
            oks.append(bb)
    add("R42d", "Ok(t) carries the value produced by poll on its Ready edge", bool(oks) and fc.only_through(oks, rg), "Ok result not tied to Poll::Ready")
    # budget derives from the duration argument and the start instant
    ok = False
    for bb, t in fc.calls("Duration::checked_sub"):
        a0, a1 = fc.arg(t, 0), fc.arg(t, 1)
        ok = a0 == ("param", 1, ()) and E.mentions_call(a1, "Instant::duration_since")
    add("R42d", "remaining budget = duration - elapsed", ok, "checked_sub arguments are not (duration, now - start)")
    o = fx.fn(free="block_on")
    of = FnCtx(o)
    addo = adder(rep, o)
    rg2 = of.guards(lambda ce: 0 if (ce.expr[0] == "discr" and E.is_call(E.strip_casts(ce.expr[1]), "Future::poll")) else None)
    rets = of.mir.return_blocks()
    addo("R42e", "block_on returns only on Poll::Ready", bool(rg2) and of.only_through(rets, rg2), "return reachable without a Ready poll")
    parks = [bb for bb, t in of.calls("thread::park")]
    pg = of.guards(lambda ce: 1 if (ce.expr[0] == "discr" and E.is_call(E.strip_casts(ce.expr[1]), "Future::poll")) else None)
    addo("R42e", "block_on parks on Poll::Pending", bool(parks) and all(any(p in of.mir.reachable(t) for p in parks) for _, t in pg), "no park on the Pending edge")
    ret = of.eb.place(Place([0, []]))
    addo("R42e", "returned value is the polled output", E.mentions_call(ret, "Future::poll"), "returns %s" % of.show(ret)[:80])


def run(ctx, rep):
    fx = ctx.facts
    sleep_rules(fx, rep)
    n = cancel_rules(fx, rep)
    rep.floor("R42b", n, 1, "timer thread closures")
    heap_rules(fx, rep)
    block_rules(fx, rep)
    rep.floor("R42", len(rep.obls), 20, "C42 obligations")
