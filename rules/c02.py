"""C02 — Best-effort delivery never duplicates or reorders (high-water-mark argument; structural).

R02a  best-effort acceptance of DATA / DATA_FRAG only for sn >= expected
R02b  every accepted DATA raises the mark (received_change_set(sn))
R01c  the mark is monotone (shared with C01)
R02d  reassembled fragments go through on_data_submessage, never straight into the cache
R05f  (shared with C05) a reassembled sample is built only from fragments of that sample: every predicate over the fragment
      buffer in reconstruct_data_from_frag compares writer_sn() with the requested sequence number (no splicing = no corruption)
Byte identity of payloads is not decided.
"""
from rules import rtps_core as R
from rules.common import adder

TECHNIQUE = "MIR guard dominance + must-accompany + monotone-field rule on the stateful reader"
ASSUMPTIONS = ["payload bytes are moved, not transformed: byte identity is not decided"]


def run(ctx, rep):
    fx = ctx.facts
    b = fx.fn("RtpsStatefulReader", "on_data_submessage")
    n1 = R.acceptance(fx, b, adder(rep, b), frag=False)
    b2 = fx.fn("RtpsStatefulReader", "on_data_frag_submessage")
    n2 = R.acceptance(fx, b2, adder(rep, b2), frag=True)
    rep.floor("R02a", n1["be"] + n2["be"], 2, "best-effort acceptance sites")
    nm = R.monotone_fields(fx, rep, [("RtpsWriterProxy", "highest_received_change_sn")])
    rep.floor("R01c", nm, 2, "writes to highest_received_change_sn")
    n3 = R.frag_reassembly_goes_through_data(b2, adder(rep, b2))
    rep.floor("R02d", n3, 1, "on_data_submessage call in on_data_frag_submessage")
    from rules.c05 import reassembly_same_sample
    n4 = reassembly_same_sample(fx, rep)
    rep.floor("R05f", n4, 4, "fragment-buffer predicates in reconstruct_data_from_frag")
    # keep only C02's rules in this report (acceptance() also emits the reliable-arm obligations)
    rep.obls = [o for o in rep.obls if o.rule in ("R02a", "R02b", "R02d", "R01c", "R05f", "anchor")]
