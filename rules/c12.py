"""C12 — Key hash on the wire follows DDS-XTypes 7.6.8.

R12a  the key is serialized big-endian, as a final structure, without encapsulation header: serialize_final_without_header builds an
      XTypesSerializer whose endianness component is BigEndian and calls serialize_fstruct_type
R12b  the choice between zero-padding and MD5 is made on the key type's *maximum* serialized size, not on the length of the
      serialized value at hand (a key with an unbounded string whose value happens to be short must still be hashed)
R12c  the padded form is a zero-initialised 16-byte array whose prefix is the serialized key; the hashed form is md5 over the whole
      serialized key
The byte-exactness of the serialization itself is C09's subject.
"""
from vplib import expr as E
from rules.common import FnCtx, adder
from rules import reach as RC

TECHNIQUE = "shape rules over MIR of the key-hash function: serializer configuration, provenance of the pad/MD5 condition, shape of both results"
ASSUMPTIONS = []


def run(ctx, rep):
    fx = ctx.facts
    ser = [b for b in fx.bodies.values() if b.item_name == "serialize_final_without_header" and b.is_fn_like()]
    rep.floor("R12a", len(ser), 1, "serialize_final_without_header")
    for b in ser:
        fc = FnCtx(b)
        be = False
        for bb, i, s in fc.aggregates("XTypesSerializer"):
            flds = s.rv.agg.get("fields") or []
            e = fc.rv_expr(s)
            if "_endianness" in flds:
                v = e[3][flds.index("_endianness")]
                be = "BigEndian" in E.show(v, fc.mir) or "BigEndian" in str(v)
        adder(rep, b)("R12a", "key serializer is configured big-endian", be, "XTypesSerializer._endianness is not BigEndian")
        v1 = False
        for bb, i, s in fc.aggregates("XTypesSerializer"):
            flds = s.rv.agg.get("fields") or []
            e = fc.rv_expr(s)
            if "_encoding_version" in flds:
                v = e[3][flds.index("_encoding_version")]
                v1 = "EncodingVersion1" in E.show(v, fc.mir) or "EncodingVersion1" in str(v)
        adder(rep, b)("R12a", "key stream uses the plain XCDR1 rules (8-byte maximum alignment, no DHEADER) that writer and reader both derive handles with", v1,
                      "XTypesSerializer._encoding_version is not EncodingVersion1: 64-bit key members are aligned to 4 and collections get a DHEADER, which changes every padded key hash and MD5 input")
        adder(rep, b)("R12a", "key is serialized as a final structure without header", bool(fc.calls("serialize_fstruct_type")) and not fc.calls("write_header", "serialize_top_level"),
                      "does not call serialize_fstruct_type directly")
    kh = [b for b in fx.bodies.values() if b.item_name == "get_instance_handle_from_key_holder_data" and b.is_fn_like()]
    rep.floor("R12b", len(kh), 1, "get_instance_handle_from_key_holder_data")
    for b in kh:
        fc = FnCtx(b)
        add = adder(rep, b)
        md5 = fc.calls("md5::compute", "compute")
        add("R12c", "hashed form is md5 over the serialized key", bool(md5) and all(E.mentions_call(fc.arg(t, 0), "serialize_final_without_header") for bb, t in md5),
            "md5::compute is missing or not applied to the serialized key")
        pad = False
        for bb, t in fc.calls("copy_from_slice"):
            dst = E.strip_casts(fc.arg(t, 0))
            src = fc.arg(t, 1)
            zero = any(x[0] == "agg" and x[1] == "repeat" and x[2] and E.strip_casts(x[2][0]) == ("const", 0) for x in E.walk(dst))
            starts0 = any((x[0] == "adt" and x[1].endswith("ops::Range") and len(x[3]) == 2 and E.strip_casts(x[3][0]) == ("const", 0))
                          or (x[0] == "adt" and (x[1].endswith("ops::RangeTo") or x[1].endswith("ops::RangeToInclusive"))) for x in E.walk(dst))   # [0..n] or [..n]
            pad = pad or (zero and starts0 and E.mentions_call(src, "serialize_final_without_header"))
        add("R12c", "padded form is [0; 16] with the serialized key as prefix", pad, "padding shape not recognised")
        # R12b: the condition that selects md5
        sel = []
        for bb, t in md5:
            for op, a, c in RC.dominating_facts(fc, bb):
                sel.append((op, a, c))
        # what the choice is made on: the obligation is keyed by that basis, so that replacing one wrong basis by another
        # (e.g. the vector's capacity) is a different, unlisted violation
        basis = []
        for op, a, c in sel:
            for x in (a, c):
                x0 = E.strip_casts(x)
                if RC.len_of(x0) is not None:
                    basis.append("the length of the serialized value")
                elif x0[0] == "call":
                    basis.append("%s(..)" % x0[1].split("::")[-1])
        basis = sorted(set(basis))
        type_level = bool(basis) and all(("max" in b2 and "size" in b2) for b2 in basis)
        add("R12b", "pad / MD5 choice is made on %s" % (" and ".join(basis) or "nothing recognisable"), bool(sel) and type_level,
            "DDS-XTypes 7.6.8 makes the choice on the key type's maximum serialized size; here (%s) a key whose type allows more than 16 bytes but whose value is short is zero-padded "
            "instead of hashed (or the other way round), so other vendors compute a different key hash for the same instance" % "; ".join("%s %s %s" % (fc.show(a)[:60], op, fc.show(c)) for op, a, c in sel[:2]))
