"""C12 — Key hash on the wire follows DDS-XTypes 7.6.8.

R12a  the key is serialized big-endian, as a final structure, without encapsulation header: serialize_final_without_header builds an
      XTypesSerializer whose endianness component is BigEndian and calls serialize_fstruct_type
R12b  the choice between zero-padding and MD5 is made on the key type's *maximum* serialized size, not on the length of the
      serialized value at hand (a key with an unbounded string whose value happens to be short must still be hashed)
R12c  the padded form is a zero-initialised 16-byte array whose prefix is the serialized key; the hashed form is md5 over the whole
      serialized key
The byte-exactness of the serialization itself is C09's subject.
"""
from vplib import expr as E
from rules.common import FnCtx, adder
from rules import reach as RC

TECHNIQUE = "shape rules over MIR of the key-hash function: serializer configuration, provenance of the pad/MD5 condition, shape of both results"
ASSUMPTIONS = []


def run(ctx, rep):
    fx = ctx.facts
    ser = [b for b in fx.bodies.values() if b.item_name == "serialize_final_without_header" and b.is_fn_like()]
    rep.floor("R12a", len(ser), 1, "serialize_final_without_header")
    for b in ser:
        fc = FnCtx(b)
        be = False
        for bb, i, s in fc.aggregates("XTypesSerializer"):
            flds = s.rv.agg.get("fields") or []
            e = fc.rv_expr(s)
            if "_endianness" in flds:
                v = e[3][flds.index("_endianness")]
                be = "BigEndian" in E.show(v, fc.mir) or "BigEndian" in str(v)
        adder(rep, b)("R12a", "key serializer is configured big-endian", be, "XTypesSerializer._endianness is not BigEndian")
        adder(rep, b)("R12a", "key is serialized as a final structure without header", bool(fc.calls("serialize_fstruct_type")) and not fc.calls("write_header", "serialize_top_level"),
                      "does not call serialize_fstruct_type directly")
    kh = [b for b in fx.bodies.values() if b.item_name == "get_instance_handle_from_key_holder_data" and b.is_fn_like()]
    rep.floor("R12b", len(kh), 1, "get_instance_handle_from_key_holder_data")
    for b in kh:
        fc = FnCtx(b)
        add = adder(rep, b)
        md5 = fc.calls("md5::compute", "compute")
        add("R12c", "hashed form is md5 over the serialized key", bool(md5) and all(E.mentions_call(fc.arg(t, 0), "serialize_final_without_header") for bb, t in md5),
            "md5::compute is missing or not applied to the serialized key")
        pad = False
        for bb, t in fc.calls("copy_from_slice"):
            dst = E.strip_casts(fc.arg(t, 0))
            src = fc.arg(t, 1)
            zero = any(x[0] == "agg" and x[1] == "repeat" and x[2] and E.strip_casts(x[2][0]) == ("const", 0) for x in E.walk(dst))
            starts0 = any(x[0] == "adt" and x[1].endswith("ops::Range") and len(x[3]) == 2 and E.strip_casts(x[3][0]) == ("const", 0) for x in E.walk(dst))
            pad = pad or (zero and starts0 and E.mentions_call(src, "serialize_final_without_header"))
        add("R12c", "padded form is [0; 16] with the serialized key as prefix", pad, "padding shape not recognised")
        # R12b: the condition that selects md5
        sel = []
        for bb, t in md5:
            for op, a, c in RC.dominating_facts(fc, bb):
                sel.append((op, a, c))
        uses_len = any(RC.len_of(a) is not None or RC.len_of(c) is not None for op, a, c in sel)
        add("R12b", "pad / MD5 choice depends on the key type's maximum serialized size", bool(sel) and not uses_len,
            "the choice is made on the length of the serialized value (%s): a key whose type allows more than 16 bytes but whose value is short is zero-padded instead of hashed, "
            "so other vendors compute a different key hash for the same instance" % "; ".join("%s %s %s" % (fc.show(a)[:60], op, fc.show(c)) for op, a, c in sel[:2]))
