"""C27 — Reliable KEEP_LAST writers block instead of dropping unacknowledged samples (structural).

R27a  every RtpsStatefulWriter::remove_change reached from the write path is behind
      is_change_acknowledged(oldest)==true, or reliability != Reliable, or "nothing to evict"
      (the Option the oldest sample comes from is None / history is not KEEP_LAST) — boolean
      variables (`can_write`) are followed to the expression assigned on each path;
R27a' the acknowledged sequence number comes from samples.front() of a full instance history
      (len == depth) and the removed one from samples.pop_front();
R27b  the same guards dominate the actual write (DataWriterEntity::write_w_timestamp): a blocked
      write stores nothing;  the blocked path records a PendingWriteSample whose expiration derives
      from max_blocking_time (R27e);
R27c  the timeout path replies Err(Timeout) only for now >= expiration_time and writes nothing.
Blocking *duration* is a timing matter and is not decided here (see C31).
"""
from vplib import expr as E
from vplib.facts import path_endswith
from rules.common import FnCtx, cmp_norm, adder, variant_value

TECHNIQUE = "MIR guard-free path search (edge removal, boolean-variable aware) + value provenance through closures"
ASSUMPTIONS = ["is_change_acknowledged is the acknowledgement oracle (its own definition is checked under C03)"]


def closure_bodies_in(facts, fc, e):
    """bodies of closures appearing (as aggregates) inside expression e"""
    out = []
    for s in E.walk(e):
        if s[0] == "call":
            t = fc.eb.terms.get(s[3])
            if t is None:
                continue
            for a in t.args:
                if a.place is None:
                    continue
                for d in fc.mir.whole_defs(a.place.local):
                    if d[0] == "s" and d[3].rv is not None and d[3].rv.kind == "aggregate" and d[3].rv.agg.get("k") == "closure":
                        b = facts.bodies.get(d[3].rv.agg["def"])
                        if b is not None:
                            out.append(b)
    return out


def is_reliable_test(e):
    c = cmp_norm(e)
    if c is None:
        return None
    op, a, b = c
    for x, y in ((a, b), (b, a)):
        if y[0] == "adt" and path_endswith(y[1], "ReliabilityQosPolicyKind") and y[2] == "Reliable":
            if E.mentions_field(x, "reliability") or E.mentions_field(x, "kind"):
                return op
    return None


def make_guard(fc, facts, keep_last_value):
    acked_args = []
    for bb, t in fc.calls("is_change_acknowledged"):
        acked_args.append(fc.arg(t, 1))
    # Options whose Some payload is the acknowledged sequence number
    opts = []
    for a in acked_args:
        a = E.strip_casts(a)
        if a[0] in ("call", "local", "param") and a[-1] and a[-1][-2:] == ("as Some", "0"):
            base = a[:-1] + (a[-1][:-2],)
            opts.append(base)

    def guard(e, outcome, ce):
        e0 = E.strip_casts(e)
        if E.is_call(e0, "is_change_acknowledged") and outcome == "true":
            return True
        op = is_reliable_test(e0)
        if op == "Eq" and outcome == "false":
            return True
        if op == "Ne" and outcome == "true":
            return True
        if e0[0] == "discr":
            sc = e0[1]
            if any(E.same(sc, o) for o in opts) and outcome == 0:
                return True   # nothing to evict
            if E.mentions_field(sc, "history") and outcome != keep_last_value:
                return True   # not KEEP_LAST
        return False
    return guard, acked_args, opts


def check_write_path(facts, body, add):
    fc = FnCtx(body)
    kl = variant_value(facts, "HistoryQosPolicyKind", "KeepLast")
    guard, acked_args, opts = make_guard(fc, facts, kl)
    removes = fc.calls("RtpsStatefulWriter::remove_change", "RtpsWriter::remove_change")
    writes = fc.calls("DataWriterEntity::write_w_timestamp")
    n = 0
    for kind, evs, rule in (("remove_change", removes, "R27a"), ("DataWriterEntity::write_w_timestamp", writes, "R27b")):
        found = fc.reach_avoiding([bb for bb, _ in evs], guard)
        for bb, t in evs:
            n += 1
            add(rule, "%s only after acknowledgement / when not reliable / when nothing is evicted" % kind,
                bb not in found,
                "reachable on a path that never passes is_change_acknowledged()==true, reliability!=Reliable, "
                "an empty eviction candidate or a non-KEEP_LAST history; witness blocks %s" % (found.get(bb),), t.line)
    # provenance of the acknowledged / removed sequence numbers
    for a in acked_args:
        deep = any(cb.calls_any("VecDeque::front") for cb in closure_bodies_in(facts, fc, a)) or E.mentions_call(a, "VecDeque::front")
        add("R27a'", "acknowledged sequence number is samples.front() of the instance", deep,
            "is_change_acknowledged is asked about %s, which does not come from samples.front()" % fc.show(a)[:160])
        for cb in closure_bodies_in(facts, fc, a):
            if cb.calls_any("VecDeque::front"):
                cfc = FnCtx(cb)
                fr = [bb for bb, _ in cfc.calls("VecDeque::front")]

                def full(op, x, y):
                    if (E.mentions_call(x, "VecDeque::len") or E.mentions_call(y, "VecDeque::len")) and op == "Eq":
                        return "true"
                    return None
                g = cfc.cmp_guards(full)
                add("R27d", "oldest sample considered only when the instance history is full (len == depth)",
                    cfc.only_through(fr, g), "front() is taken without testing samples.len() == depth", cb.line)
    for bb, t in removes:
        a = fc.arg(t, 1)
        add("R27a'", "removed sequence number is samples.pop_front()", E.mentions_call(a, "VecDeque::pop_front"),
            "remove_change(%s) does not remove the popped oldest sample" % fc.show(a)[:120], t.line)
    return n, len(removes), len(writes)


def check_blocked(facts, body, add):
    """R27b/R27e in writer_methods::write_w_timestamp: the blocked path stores a PendingWriteSample."""
    fc = FnCtx(body)
    pend = fc.aggregates("PendingWriteSample")
    add("R27b", "blocked write is recorded as PendingWriteSample", bool(pend), "no PendingWriteSample constructed")
    for bb, i, s in pend:
        e = fc.rv_expr(s)
        # expiration derives from max_blocking_time
        fields = s.rv.agg["fields"]
        if "expiration_time" in fields:
            ex = e[3][fields.index("expiration_time")]
            ok = E.mentions_field(ex, "max_blocking_time") or _local_derives_field(fc, ex, "max_blocking_time")
            add("R27e", "expiration_time derives from reliability.max_blocking_time", ok,
                "expiration is %s" % fc.show(ex)[:120], s.line)
            # ... counted from the moment the write blocks (the local clock), not from the sample's source timestamp
            exprs = [ex]
            ex0 = E.strip_casts(ex)
            if ex0[0] == "local" and not ex0[2]:
                exprs = [fc._def_expr(d) for d in fc.mir.whole_defs(ex0[1])]
            clock = any(E.mentions_call(x, "Clock::now") for x in exprs)
            stamp = any(any(y[0] == "param" and not y[2] and "Time" in fc.mir.locals[y[1]] for y in E.walk(x)) for x in exprs)
            add("R27e", "expiration_time = Clock::now() + max_blocking_time (the blocking period starts when the write blocks)", clock and not stamp,
                "expiration is %s: with a future-dated source timestamp the write times out only after (timestamp - now) + max_blocking_time" % " | ".join(fc.show(x)[:100] for x in exprs), s.line)
        # reached only when reliable and NOT acknowledged
        def g(e2, outcome, ce):
            e0 = E.strip_casts(e2)
            return E.is_call(e0, "is_change_acknowledged") and outcome == "false"
        found = fc.reach_avoiding([bb], g)
        add("R27b", "pending sample recorded only when the oldest sample is unacknowledged", bb not in found,
            "PendingWriteSample reachable without is_change_acknowledged()==false", s.line)
        # and from there no write / removal
        r = fc.mir.reachable(bb)
        bad = [b2 for b2, t in fc.calls("DataWriterEntity::write_w_timestamp", "remove_change") if b2 in r]
        add("R27b", "blocked path returns without writing or removing", not bad,
            "after recording the pending sample the function still reaches a write/remove_change", s.line)
    return len(pend)


def _local_derives_field(fc, ex, field):
    from vplib.flow import dep_graph, derives_from
    m = fc.mir
    locs = [s[1] for s in E.walk(ex) if s[0] == "local"]
    g = dep_graph(m)
    for l in locs:
        for d in derives_from(m, l, g):
            for dd in m.defs().get(d, []):
                obj = dd[3]
                txt = repr(obj)
                if field in txt:
                    return True
    return False


def check_timeout(facts, body, add):
    fc = FnCtx(body)
    n = 0
    for bb, i, s in fc.aggregates("DdsError", "Timeout"):
        n += 1

        def pred(op, a, b):
            l = E.mentions_field(b, "expiration_time") or E.mentions_local_named(fc.mir, b, "expiration_time")
            r = E.mentions_field(a, "expiration_time") or E.mentions_local_named(fc.mir, a, "expiration_time")
            if l and not r:
                return {"Ge": "true", "Lt": "false"}.get(op)
            if r and not l:
                return {"Le": "true", "Gt": "false"}.get(op)
            return None
        g = fc.cmp_guards(pred)
        add("R27c", "Err(Timeout) only when now >= expiration_time", fc.only_through([bb], g),
            "Timeout reply reachable without the expiry comparison", s.line)
    bad = fc.calls("DataWriterEntity::write_w_timestamp", "add_change", "remove_change")
    add("R27c", "timeout path stores nothing", not bad, "check_pending_writer_sample_timeout calls %s" % [t.callee.best_name() for _, t in bad])
    takes = fc.calls("Option::take")
    add("R27c", "timed-out pending sample is taken out", bool(takes), "pending_write_sample is not cleared on timeout")
    return n


def depth_tests(facts, rep, bodies):
    """R27d: every test of an instance's sample count against the KEEP_LAST depth admits len == depth
    (the history is full when it holds `depth` samples; `>` would let it grow to depth+1)."""
    n = 0
    from vplib.flow import SWAP
    for b in bodies:
        for x in [b] + facts.descendants(b):
            fc = FnCtx(x)
            for bb, ce in fc.ces.items():
                c = cmp_norm(ce.expr)
                if c is None:
                    continue
                op, a, d = c
                la, ld = E.mentions_call(a, "VecDeque::len"), E.mentions_call(d, "VecDeque::len")
                da = E.mentions_local_named(fc.mir, a, "depth") or E.mentions_field(a, "depth") or E.mentions_field(a, "as KeepLast")
                dd = E.mentions_local_named(fc.mir, d, "depth") or E.mentions_field(d, "depth") or E.mentions_field(d, "as KeepLast")
                if la and dd and not ld:
                    pass
                elif ld and da and not la:
                    op = SWAP[op]
                else:
                    continue
                n += 1
                rep.add("R27d", x.sname, "history-full test is `len == depth` (or >=)", op in ("Eq", "Ge"),
                        "samples.len() %s depth: the oldest sample is not evicted when the history holds exactly depth samples" % op,
                        x.loc(fc.mir.blocks[bb].term.line))
    return n


def run(ctx, rep):
    fx = ctx.facts
    b1 = fx.fn("DcpsDomainParticipant", "write_w_timestamp")
    n1, r1, w1 = check_write_path(fx, b1, adder(rep, b1))
    b2 = fx.fn("DcpsDomainParticipant", "process_pending_write_samples")
    n2, r2, w2 = check_write_path(fx, b2, adder(rep, b2))
    rep.floor("R27a", r1 + r2, 2, "remove_change call sites on the write path")
    rep.floor("R27b", w1 + w2, 2, "DataWriterEntity::write_w_timestamp call sites")
    from rules import rtps_core as R
    hb = fx.fn("RtpsStatefulWriter", "on_acknack_submessage_received")
    na = R.acknack_handler(hb, adder(rep, hb))
    rep.floor("R01d", na, 4, "ACKNACK handler state updates (acknowledged = base - 1)")
    nd = depth_tests(fx, rep, [b1, b2])
    rep.floor("R27d", nd, 3, "samples.len() vs depth comparisons on the write path")
    n3 = check_blocked(fx, b1, adder(rep, b1))
    rep.floor("R27b-pending", n3, 1, "PendingWriteSample constructions")
    b3 = fx.fn("DcpsDomainParticipant", "check_pending_writer_sample_timeout")
    n4 = check_timeout(fx, b3, adder(rep, b3))
    rep.floor("R27c", n4, 1, "Err(Timeout) constructions")
    # who-may-call: remove_change on the RTPS writer is only called from the reviewed functions
    allowed = {b1.id, b2.id}
    reviewed = {"remove_stale_writer_samples": "lifespan purge (C29)"}
    for ob in fx.bodies.values():
        if ob.is_fn_like() and ob.calls_any("RtpsStatefulWriter::remove_change") and ob.id not in allowed:
            root = ob
            while root.parent in fx.bodies:
                root = fx.bodies[root.parent]
            ok = (root.item_name in reviewed) or root.id in allowed or (root.impl_self or "").endswith("RtpsStatefulWriter") or root.impl_trait is not None and path_endswith(root.impl_trait, "RtpsWriter")
            rep.add("R27f", ob.sname, "remove_change called only from reviewed eviction sites", ok,
                    "unreviewed caller of RtpsStatefulWriter::remove_change (can drop an unacknowledged sample)", ob.loc())
