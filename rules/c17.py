"""C17 — Participant discovery, domain isolation and lease expiry (guards only; timing is not decided).

R17a  in add_discovered_participant every add_matched_* call and the insertion into
      discovered_participant_list is behind (domain id equal OR absent) AND (domain tag equal) AND
      (participant not in ignored_participants)
R17b  remove_stale_participants removes a participant only through `now - last_communication > lease`
      (strict: never before the lease has elapsed)
R17c  ignore_participant records the handle in ignored_participants and removes an already discovered one
R17d  received data from a participant refreshes its last_communication_timestamp in both receive loops
R17e  the lease that is enforced is the one announced by the remote participant
The upper bound "no later than lease + one worker period" belongs to C31.
"""
from vplib import expr as E
from vplib.facts import Place
from rules.common import FnCtx, cmp_norm, adder

TECHNIQUE = "guard-free path search per isolation condition (boolean-variable aware), closure predicate shape, pairing rules"
ASSUMPTIONS = ["ignored_participants is only consulted in add_discovered_participant (who-may-read not needed)"]


def field_of(e):
    if e[0] in ("param", "local") and e[2]:
        return e[2][-1]
    if e[0] == "call" and e[4]:
        return e[4][-1]
    return None


def run(ctx, rep):
    fx = ctx.facts
    b = fx.fn("DcpsDomainParticipant", "add_discovered_participant")
    fc = FnCtx(b)
    add = adder(rep, b)
    events = [(bb, t) for bb, t in fc.mir.calls() if not t.callee.indirect and t.callee.method().startswith("add_matched_")]
    events += [(bb, t) for bb, t in fc.calls("Vec::push") if field_of(fc.arg(t, 0)) == "discovered_participant_list"]
    rep.floor("R17a", len(events), 11, "add_matched_* calls + discovered_participant_list insertion")
    ev = [bb for bb, _ in events]

    def g_id(e, outcome, ce):
        c = cmp_norm(E.strip_casts(e))
        if c and c[0] == "Eq" and (E.mentions_field(c[1], "domain_id") and E.mentions_field(c[2], "domain_id")):
            return outcome == "true"
        if e[0] == "discr" and E.mentions_field(e[1], "domain_id") and outcome == 0:
            return True   # no domain id transmitted: the local one is assumed (RTPS Table 9.19)
        return False

    def g_tag(e, outcome, ce):
        c = cmp_norm(E.strip_casts(e))
        return bool(c) and c[0] == "Eq" and E.mentions_field(c[1], "domain_tag") and E.mentions_field(c[2], "domain_tag") and outcome == "true"

    def g_ign(e, outcome, ce):
        e0 = E.strip_casts(e)
        return E.is_call(e0, "Iterator::any", "HashSet::contains", "BTreeSet::contains", "[T]::contains") and E.mentions_field(e0, "ignored_participants") and outcome == "false"
    for name, g, why in (("domain id matches (or is absent)", g_id, "a participant of another domain is matched"),
                         ("domain tag matches", g_tag, "a participant with a different domain tag is matched"),
                         ("participant is not ignored", g_ign, "an ignored participant is (re)discovered")):
        found = fc.reach_avoiding(ev, g)
        for bb, t in events:
            add("R17a", "%s only when the %s" % (t.callee.method(), name), bb not in found, "%s; witness %s" % (why, found.get(bb)), t.line)
    # R17e
    ok = False
    for bb, i, s in fc.aggregates("DiscoveredParticipantInfo"):
        flds = s.rv.agg["fields"]
        e = fc.rv_expr(s)
        if "lease_duration" in flds:
            x = e[3][flds.index("lease_duration")]
            ok = x[0] == "param" and x[1] == 2 and x[2][-1:] == ("lease_duration",)
    add("R17e", "stored lease_duration is the one announced by the remote participant", ok, "lease_duration does not come from the received participant data")
    # R17b
    rs = fx.fn("DcpsDomainParticipant", "remove_stale_participants")
    rf = FnCtx(rs)
    addr = adder(rep, rs)
    rem = rf.calls("remove_discovered_participant")
    addr("R17b", "stale participants are removed", bool(rem), "no remove_discovered_participant call")
    n = 0
    for k in fx.descendants(rs):
        if k.kind.startswith("Const") or k.kind.startswith("Static"):
            continue
        kf = FnCtx(k)
        somes = [bb for bb, i, s in kf.aggregates("Option", "Some")]

        def stale(op, a, c):
            a0 = E.strip_casts(a)
            if E.is_call(a0, "Sub::sub") and E.mentions_field(a0, "last_communication_timestamp") and E.mentions_field(c, "lease_duration"):
                return {"Gt": "true", "Le": "false"}.get(op)
            c0 = E.strip_casts(c)
            if E.is_call(c0, "Sub::sub") and E.mentions_field(c0, "last_communication_timestamp") and E.mentions_field(a, "lease_duration"):
                return {"Lt": "true", "Ge": "false"}.get(op)
            return None
        if not somes:
            # `.find(|p| now - p.last > p.lease)`: the closure's value is the comparison itself
            ret = E.strip_casts(kf.eb.place(Place([0, []])))
            c = cmp_norm(ret)
            if c is None or not (E.mentions_field(ret, "last_communication_timestamp") or E.mentions_field(ret, "lease_duration")):
                continue
            n += 1
            verdict = stale(*c) or stale({"Lt": "Gt", "Gt": "Lt", "Le": "Ge", "Ge": "Le"}.get(c[0], c[0]), c[2], c[1])
            adder(rep, k)("R17b", "a participant is selected for removal only when now - last_communication > lease_duration", verdict == "true",
                          "the selection predicate is `%s`: not the strict lease comparison (a participant could be dropped before its lease elapsed)" % kf.show(ret)[:120])
            continue
        g = kf.cmp_guards(stale)
        n += 1
        adder(rep, k)("R17b", "a participant is selected for removal only when now - last_communication > lease_duration",
                      bool(g) and kf.only_through(somes, g),
                      "removal is not guarded by the strict lease comparison (a participant could be dropped before its lease elapsed)")
    rep.floor("R17b", n, 1, "stale-participant selection closures")
    # R17c
    ig = fx.fn("DcpsDomainParticipant", "ignore_participant")
    gf = FnCtx(ig)
    addi = adder(rep, ig)
    ins = [bb for bb, t in gf.mir.calls() if not t.callee.indirect and t.callee.method() in ("insert", "push") and t.args and field_of(gf.arg(t, 0)) == "ignored_participants"]
    rm = [bb for bb, t in gf.calls("remove_discovered_participant")]
    addi("R17c", "handle is recorded in ignored_participants", bool(ins), "no insertion into ignored_participants")
    addi("R17c", "an already discovered participant is removed when it is ignored", bool(rm) and bool(ins) and any(r in gf.mir.reachable(i) for i in ins for r in rm),
         "ignore_participant does not remove the discovered participant")
    # R17d
    k = 0
    for ty, name in (("DcpsDomainParticipant", "process_user_defined_received_cache_changes"), ("BuiltinDataReader", "process_cache_changes")):
        f = fx.fn(ty, name)
        ff = FnCtx(f)
        w = ff.field_writes("DiscoveredParticipantInfo", "last_communication_timestamp")
        k += len(w)
        ok = False
        for bb, i, s in w:
            # the value must BE the local clock reading (the lease is compared against the local clock later);
            # a timestamp taken from the message (sender's clock) is not acceptable
            ok = ok or E.is_call(E.strip_casts(ff.rv_expr(s)), "Clock::now")
        adder(rep, f)("R17d", "received data refreshes last_communication_timestamp with the local clock", ok,
                      "last_communication_timestamp is not set to Clock::now() in this receive loop (e.g. it is taken from the message)")
    rep.floor("R17d", k, 2, "last_communication_timestamp refresh sites")
    # R17f: the announcement always carries the local domain id and tag (the receiver treats an absent id as "my domain")
    an = fx.fn("DcpsDomainParticipant", "announce_participant")
    af = FnCtx(an)
    okid = oktag = False
    for bb, i, s in af.aggregates("ParticipantProxy"):
        flds = s.rv.agg["fields"]
        e = af.rv_expr(s)
        if "domain_id" in flds:
            x = e[3][flds.index("domain_id")]
            okid = x[0] == "adt" and x[2] == "Some" and x[3] and x[3][0][0] == "param" and x[3][0][2][-1:] == ("domain_id",)
        if "domain_tag" in flds:
            y = e[3][flds.index("domain_tag")]
            oktag = E.mentions_field(y, "domain_tag")
    adder(rep, an)("R17f", "announced participant data always carries Some(local domain id)", okid,
                   "PID_DOMAIN_ID can be omitted or altered in the announcement: a receiver in another domain assumes its own domain id and matches")
    adder(rep, an)("R17f", "announced participant data carries the local domain tag", oktag, "domain_tag of the announcement is not the local one")
