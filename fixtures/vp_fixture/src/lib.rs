//! Tiny positive/negative examples for every rule template. Each module `cNN` holds a
//! conforming (`good_*`) and a violating (`bad_*`) variant of the construct the rule of
//! that property looks for; the rule code is run over these on every check.
#![allow(dead_code, unused_variables, clippy::all)]

pub mod c38;
pub mod inline;
pub mod reach;
