pub struct Factory {
    pub interface_name: Option<String>,
    pub fragment_size: usize,
}
#[derive(Debug)]
pub enum DdsError {
    BadParameter,
}
impl Factory {
    pub fn good_set_fragment_size(&mut self, fragment_size: usize) -> Result<&mut Self, DdsError> {
        let r = 8..=65000;
        if !r.contains(&fragment_size) {
            Err(DdsError::BadParameter)
        } else {
            self.fragment_size = fragment_size;
            Ok(self)
        }
    }
    // tests the old value
    pub fn bad_old_set_fragment_size(&mut self, fragment_size: usize) -> Result<&mut Self, DdsError> {
        let r = 8..=65000;
        if !r.contains(&self.fragment_size) {
            Err(DdsError::BadParameter)
        } else {
            self.fragment_size = fragment_size;
            Ok(self)
        }
    }
    // stores before testing
    pub fn bad_store_first_set_fragment_size(&mut self, fragment_size: usize) -> Result<&mut Self, DdsError> {
        self.fragment_size = fragment_size;
        let r = 8..=65000;
        if !r.contains(&fragment_size) {
            Err(DdsError::BadParameter)
        } else {
            Ok(self)
        }
    }
    // wrong bounds
    pub fn bad_bounds_set_fragment_size(&mut self, fragment_size: usize) -> Result<&mut Self, DdsError> {
        let r = 8..=65535;
        if !r.contains(&fragment_size) {
            Err(DdsError::BadParameter)
        } else {
            self.fragment_size = fragment_size;
            Ok(self)
        }
    }
    // comparison form, equivalent to the range (must be accepted)
    pub fn good_cmp_set_fragment_size(&mut self, fragment_size: usize) -> Result<&mut Self, DdsError> {
        if fragment_size < 8 || fragment_size > 65000 {
            return Err(DdsError::BadParameter);
        }
        self.fragment_size = fragment_size;
        Ok(self)
    }
    // tests a truncated copy of the argument: says nothing about values >= 65536
    pub fn bad_truncated_set_fragment_size(&mut self, fragment_size: usize) -> Result<&mut Self, DdsError> {
        let r = 8..=65000u16;
        if !r.contains(&(fragment_size as u16)) {
            Err(DdsError::BadParameter)
        } else {
            self.fragment_size = fragment_size;
            Ok(self)
        }
    }
}
