//! Fixture for engine/vplib/inline.py: `via_helper` is `direct` with its two halves extracted into helpers. With the helpers
//! missing from the inventory, the rules must see in `via_helper` what they see in `direct`.
pub struct Cursor {
    pub pos: usize,
    pub log: Vec<u32>,
}

impl Cursor {
    pub fn record(&mut self, v: u32) {
        self.log.push(v)
    }

    pub fn direct(&mut self, n: u32) -> Result<(), ()> {
        if n > 3 {
            return Err(());
        }
        self.record(n);
        self.pos += 1;
        Ok(())
    }

    pub fn via_helper(&mut self, n: u32) -> Result<(), ()> {
        self.check(n)?;
        self.store(n);
        Ok(())
    }

    fn check(&self, n: u32) -> Result<(), ()> {
        if n > 3 {
            Err(())
        } else {
            Ok(())
        }
    }

    fn store(&mut self, n: u32) {
        self.record(n);
        self.pos += 1;
    }

    /// a verdict stored in an Option before it is tested
    pub fn via_option(&mut self, n: u32) -> Result<(), ()> {
        let refusal = if n > 3 { Some(()) } else { None };
        if let Some(()) = refusal {
            return Err(());
        }
        self.record(n);
        Ok(())
    }

    /// the guard lives in the closure of an Option combinator (engine/vplib/inline.py expand_combinators)
    pub fn via_is_some_and(&mut self, n: u32, flag: Option<u8>) -> Result<(), ()> {
        if flag.is_some_and(|_| n > 3) {
            return Err(());
        }
        self.record(n);
        Ok(())
    }

    pub fn via_is_none_or(&mut self, n: u32, flag: Option<u8>) -> Result<(), ()> {
        if !flag.is_none_or(|_| !(n > 3)) {
            return Err(());
        }
        self.record(n);
        Ok(())
    }

    pub fn via_map_or(&mut self, n: u32, flag: Option<u8>) -> Result<(), ()> {
        if flag.map_or(false, |_| n > 3) {
            return Err(());
        }
        self.record(n);
        Ok(())
    }

    pub fn via_filter(&mut self, n: u32, flag: Option<u8>) -> Result<(), ()> {
        if let Some(_) = flag.filter(|_| n > 3) {
            return Err(());
        }
        self.record(n);
        Ok(())
    }
}
