//! T-REACH fixtures: every `good_*` function must have all its sites discharged by a rule,
//! every `bad_*` function must keep at least one undischarged site of the named kind.

pub struct Set {
    pub base: u32,
    pub num_bits: u32,
    pub bitmap: [i32; 8],
}

// D2: index behind a length test
pub fn good_index_after_len_test(d: &[u8]) -> u8 {
    if d.len() >= 4 {
        d[3]
    } else {
        0
    }
}
pub fn bad_index_without_test(d: &[u8]) -> u8 {
    d[3]
}

// D7: range index with start <= end <= len
pub fn good_range_guarded(d: &[u8], a: usize, b: usize) -> &[u8] {
    if a > b || b > d.len() {
        return &[];
    }
    &d[a..b]
}
// the guard bounds the start against the slice, not against the end
pub fn bad_range_start_not_below_end(d: &[u8], a: usize, b: usize) -> &[u8] {
    if a > d.len() || b > d.len() {
        return &[];
    }
    &d[a..b]
}

// D11 + bounded iteration
pub fn good_bitmap_loop(words: &[i32; 8], n: u32) -> u32 {
    if n > 256 {
        return 0;
    }
    let mut c = 0u32;
    for i in 0..n as usize {
        if words[i / 32] != 0 {
            c = c.wrapping_add(1);
        }
    }
    c
}
pub fn bad_bitmap_loop_unbounded(words: &[i32; 8], n: u32) -> u32 {
    let mut c = 0u32;
    for i in 0..n as usize {
        if words[i / 32] != 0 {
            c = c.wrapping_add(1);
        }
    }
    c
}

// D9 allocation
pub fn good_alloc_clamped(n: usize, buf: &[u8]) -> Vec<u8> {
    Vec::with_capacity(core::cmp::min(n, buf.len()))
}
pub fn good_alloc_small_const_cap(n: u32) -> Vec<u8> {
    Vec::with_capacity(n.min(256) as usize)
}
// a large constant cap is not a bound on memory: 65535 elements from a handful of received bytes
pub fn bad_alloc_large_const_cap(n: u32) -> Vec<u64> {
    Vec::with_capacity(n.min(u16::MAX as u32) as usize)
}
pub fn bad_alloc_wire_sized(n: u32) -> Vec<u8> {
    Vec::with_capacity(n as usize)
}

// DL3 / loop over a received range
pub fn good_loop_take(a: i64, b: i64) -> i64 {
    let mut s = 0;
    for x in (a..b).take(256) {
        s ^= x;
    }
    s
}
pub fn bad_loop_over_received_range(a: i64, b: i64) -> i64 {
    let mut s = 0;
    for x in a..b {
        s ^= x;
    }
    s
}

// D16 guarded subtraction
pub fn good_sub_guarded(a: i64, b: i64) -> i64 {
    if a < b {
        b - 1
    } else {
        0
    }
}
pub fn bad_sub_unguarded(b: i64) -> i64 {
    b - 1
}

// explicit panics
pub fn bad_todo(k: u8) -> u8 {
    match k {
        0 => 1,
        _ => todo!(),
    }
}
