//! Derive inputs for C40. Each type exercises one corner of the attribute language; `rules/c40.py` reads the generated
//! `Type::TYPE`, `create_sample` and `create_dynamic_sample` of every type here from MIR and checks that they agree with each
//! other and with the attributes written below (parsed from this file).
#![allow(dead_code)]
use dust_dds::infrastructure::type_support::DdsType;

#[derive(DdsType, Debug, Clone, PartialEq)]
pub struct FinalNamed {
    #[dust_dds(key)]
    pub id: u32,
    pub name: String,
    pub values: Vec<i16>,
}

#[derive(DdsType, Debug, Clone, PartialEq)]
#[dust_dds(extensibility = "appendable")]
pub struct AppendableNamed {
    pub a: u8,
    #[dust_dds(key)]
    pub b: u64,
    #[dust_dds(optional)]
    pub c: Option<i32>,
}

#[derive(DdsType, Debug, Clone, PartialEq)]
#[dust_dds(extensibility = "mutable")]
pub struct MutableExplicitIds {
    #[dust_dds(id = 10, key)]
    pub first: u32,
    pub after_explicit: u16,
    #[dust_dds(id = 40)]
    pub third: String,
    #[dust_dds(optional)]
    pub fourth: Option<u8>,
}

#[derive(DdsType, Debug, Clone, PartialEq)]
#[dust_dds(extensibility = "mutable")]
pub struct MutableTuple(#[dust_dds(id = 7)] pub u32, pub u16, #[dust_dds(id = 21)] pub i64);

#[derive(DdsType, Debug, Clone, PartialEq)]
#[dust_dds(extensibility = "final")]
pub struct FinalTuple(pub u32, pub String);

#[derive(DdsType, Debug, Clone, PartialEq)]
#[dust_dds(extensibility = "appendable", nested)]
pub struct NestedAppendable {
    pub x: f32,
    pub y: f64,
}

#[derive(DdsType, Debug, Clone, PartialEq)]
#[dust_dds(name = "RenamedOnTheWire")]
pub struct Renamed {
    pub inner: NestedAppendable,
    pub r#type: u8,
}

#[derive(DdsType, Debug, Clone, PartialEq)]
pub struct WithNonSerialized {
    pub kept: u32,
    #[dust_dds(non_serialized)]
    pub scratch: u64,
    pub also_kept: u16,
}

/// C39 R39k: the reader's version of an evolved type. A writer of the previous version does not send `added`.
#[derive(DdsType, Debug, Clone, PartialEq)]
#[dust_dds(extensibility = "appendable")]
pub struct EvolvedAppendableReader {
    pub a: u32,
    pub added: u32,
}

/// C39 R39k: same for a mutable type with named members
#[derive(DdsType, Debug, Clone, PartialEq)]
#[dust_dds(extensibility = "mutable")]
pub struct EvolvedMutableReader {
    #[dust_dds(id = 1)]
    pub a: u32,
    #[dust_dds(id = 2)]
    pub added: u32,
}

/// C39 R39k: same for a mutable tuple struct
#[derive(DdsType, Debug, Clone, PartialEq)]
#[dust_dds(extensibility = "mutable")]
pub struct EvolvedMutableTupleReader(#[dust_dds(id = 1)] pub u32, #[dust_dds(id = 2)] pub u32);

#[derive(DdsType, Debug, Clone, PartialEq)]
#[dust_dds(extensibility = "mutable")]
pub struct HashedIds {
    #[dust_dds(hashid)]
    pub color: u32,
    #[dust_dds(hashid)]
    pub shapesize: i32,
}

#[derive(DdsType, Debug, Clone, Copy, PartialEq)]
pub enum PlainEnum {
    Red,
    Green,
    Blue,
}

#[derive(DdsType, Debug, Clone, PartialEq)]
#[dust_dds(extensibility = "final", switch(u8))]
pub enum FinalUnion {
    #[dust_dds(case = 1)]
    A { a: u32 },
    #[dust_dds(case = 2)]
    B(u16),
    #[dust_dds(case = 3)]
    Nothing,
}

#[derive(DdsType, Debug, Clone, PartialEq)]
#[dust_dds(extensibility = "appendable", switch(i32))]
pub enum UnionWithUnitDefault {
    #[dust_dds(case = 10)]
    Ten { v: u32 },
    #[dust_dds(case = 20)]
    Twenty(String),
    #[dust_dds(default)]
    Other,
}

#[derive(DdsType, Debug, Clone, PartialEq)]
#[dust_dds(extensibility = "mutable", switch(u8))]
pub enum UnionWithNamedDefault {
    #[dust_dds(case = 1)]
    One { one: u8 },
    #[dust_dds(default)]
    Rest { rest: u64 },
}
