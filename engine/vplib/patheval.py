"""Acyclic path enumeration with a flow-sensitive symbolic environment, and interval evaluation
of the resulting expressions.  No solver: straight-line substitution plus interval arithmetic
with two algebraic idioms (x - (x / c) * c  ==  x mod c ;  x % c) and sign refinement from
branch conditions of the form `x < 0` / `x >= 0`.
"""
from .expr import ExprBuilder, with_path, same, strip_casts, show
from .facts import Place

U32 = (0, (1 << 32) - 1)
I32 = (-(1 << 31), (1 << 31) - 1)
U64 = (0, (1 << 64) - 1)
I64 = (-(1 << 63), (1 << 63) - 1)
TY_RANGE = {"u8": (0, 255), "u16": (0, 65535), "u32": U32, "u64": U64, "usize": U64,
            "i8": (-128, 127), "i16": (-32768, 32767), "i32": I32, "i64": I64, "isize": I64, "bool": (0, 1)}


class PathEnv:
    """symbolic environment along one path: local -> expr"""

    def __init__(self, mir, body=None):
        self.mir = mir
        self.body = body
        self.env = {}
        self.constraints = []   # (expr, True/False)

    def copy(self):
        p = PathEnv(self.mir, self.body)
        p.env = dict(self.env)
        p.constraints = list(self.constraints)
        return p


def _proj_names(proj):
    from .expr import _proj_names as pn
    return pn(proj)


class PathEvaluator:
    def __init__(self, mir, body=None, max_paths=256):
        self.mir = mir
        self.body = body
        self.max_paths = max_paths
        self.eb0 = ExprBuilder(mir, body)

    # -- expression of operands under an environment
    def op_expr(self, env, op):
        if op.place is None:
            return self.eb0.const(op.const)
        return self.place_expr(env, op.place)

    def place_expr(self, env, pl):
        base = env.env.get(pl.local)
        if base is None:
            if self.mir.is_arg(pl.local):
                base = ("param", pl.local, ())
            else:
                base = ("local", pl.local, ())
        return with_path(base, _proj_names(pl.proj))

    def rv_expr(self, env, rv):
        k = rv.kind
        if k == "use":
            return self.op_expr(env, rv.ops[0])
        if k in ("ref", "rawptr"):
            return self.place_expr(env, rv.place)
        if k == "cast":
            return ("cast", rv.to_ty, self.op_expr(env, rv.ops[0]), rv.cast_kind)
        if k == "binop":
            op = rv.op
            a, b = self.op_expr(env, rv.ops[0]), self.op_expr(env, rv.ops[1])
            if op.endswith("WithOverflow"):
                return ("ckd", op[:-12], a, b)
            if op.endswith("Unchecked"):
                op = op[:-9]
            return ("bin", op, a, b)
        if k == "unop":
            return ("un", rv.op, self.op_expr(env, rv.ops[0]))
        if k == "discr":
            return ("discr", self.place_expr(env, rv.place))
        if k == "aggregate":
            a = rv.agg
            args = tuple(self.op_expr(env, o) for o in rv.ops)
            if a["k"] == "adt":
                return ("adt", a["adt"], a["variant"], args, (), tuple(a.get("fields", ())))
            return ("agg", a["k"], args, ())
        return ("rv", str(rv.j)[:60])

    def paths(self):
        """yield (PathEnv at return, list of blocks) for every acyclic entry->return path"""
        m = self.mir
        out = []
        stack = [(0, PathEnv(m, self.body), [0])]
        while stack and len(out) < self.max_paths:
            bb, env, trail = stack.pop()
            blk = m.blocks[bb]
            for s in blk.stmts:
                if s.kind == "assign":
                    e = self.rv_expr(env, s.rv)
                    if s.lhs.is_local():
                        env.env[s.lhs.local] = e
                    else:
                        # partial write: `x.f = e` -> remember as field override
                        base = env.env.get(s.lhs.local)
                        names = _proj_names(s.lhs.proj)
                        env.env[("field", s.lhs.local) + names] = e
            t = blk.term
            if t.kind == "return":
                out.append((env, trail))
                continue
            if t.kind == "call":
                args = tuple(self.op_expr(env, a) for a in t.args)
                c = t.callee
                name = "<indirect>" if c.indirect else (c.trait + "::" + c.method() if c.trait else c.best_name())
                if t.dest is not None and t.dest.is_local():
                    env.env[t.dest.local] = ("call", name, args, bb, ())
            succs = m.succ(bb)
            if t.kind == "switch":
                de = self.op_expr(env, t.discr)
                neg = False
                while de[0] == "un" and de[1] == "Not":
                    de = de[2]
                    neg = not neg
                for s in succs:
                    if s in trail:
                        continue
                    e2 = env.copy()
                    if t.discr_ty == "bool":
                        falsy = [tg for v, tg in t.arms if v == 0]
                        is_false = s in falsy and s != t.otherwise
                        val = (not is_false) != neg
                        e2.constraints.append((de, val))
                    else:
                        vals = [v for v, tg in t.arms if tg == s]
                        if s == t.otherwise:
                            e2.constraints.append((de, ("notin", tuple(v for v, tg in t.arms if tg != s))))
                        else:
                            e2.constraints.append((de, ("in", tuple(vals))))
                    stack.append((s, e2, trail + [s]))
            else:
                for s in succs:
                    if s in trail:
                        continue
                    stack.append((s, env if len(succs) == 1 else env.copy(), trail + [s]))
        return out


# ---------------------------------------------------------------------------------------
# interval evaluation


def deep_strip(e):
    """remove every cast node (used only to correlate `a - b` computed in a wider type with the same
    difference computed in the operands' own type)"""
    if not isinstance(e, tuple) or not e:
        return e
    if e[0] == "cast":
        return deep_strip(e[2])
    if e[0] in ("bin", "ckd"):
        return ("bin", e[1], deep_strip(e[2]), deep_strip(e[3]))
    if e[0] == "un":
        return ("un", e[1], deep_strip(e[2]))
    return e


def _wrap(iv, ty):
    r = TY_RANGE.get(ty)
    if r is None or iv is None:
        return iv
    if iv[0] >= r[0] and iv[1] <= r[1]:
        return iv
    return r


class IntervalEval:
    def __init__(self, leaf, constraints=(), mir=None):
        """leaf(expr) -> (lo, hi) or None for params / fields / calls"""
        self.leaf = leaf
        self.constraints = list(constraints)
        self.mir = mir
        self.notes = []

    def refine(self, e, iv):
        if iv is None:
            return iv
        lo, hi = iv
        for ce, val in self.constraints:
            # `c < x` is `x > c`
            if ce[0] == "bin" and ce[1] in ("Lt", "Le", "Gt", "Ge", "Eq", "Ne") and ce[2][0] == "const" and ce[3][0] != "const":
                ce = ("bin", {"Lt": "Gt", "Gt": "Lt", "Le": "Ge", "Ge": "Le", "Eq": "Eq", "Ne": "Ne"}[ce[1]], ce[3], ce[2])
            if ce[0] == "bin" and ce[1] in ("Lt", "Le", "Gt", "Ge", "Eq", "Ne") and ce[3][0] == "const":
                if same(strip_casts(ce[2]), strip_casts(e)) or same(ce[2], e) or same(deep_strip(ce[2]), deep_strip(e)):
                    c = ce[3][1]
                    op = ce[1]
                    if not val:
                        op = {"Lt": "Ge", "Ge": "Lt", "Gt": "Le", "Le": "Gt", "Eq": "Ne", "Ne": "Eq"}[op]
                    if op == "Lt":
                        hi = min(hi, c - 1)
                    elif op == "Le":
                        hi = min(hi, c)
                    elif op == "Gt":
                        lo = max(lo, c + 1)
                    elif op == "Ge":
                        lo = max(lo, c)
                    elif op == "Eq":
                        lo, hi = max(lo, c), min(hi, c)
        if lo > hi:
            return None
        return (lo, hi)

    def ev(self, e, d=0):
        if d > 40:
            return None
        t = e[0]
        r = None
        if t == "const":
            r = (e[1], e[1])
        elif t == "cast":
            inner = self.ev(e[2], d + 1)
            r = _wrap(inner, e[1]) if inner is not None else TY_RANGE.get(e[1])
        elif t in ("bin", "ckd"):
            op = e[1]
            a, b = e[2], e[3]
            # idiom: x - (x / c) * c
            if op == "Sub":
                m = strip_casts(b)
                if m[0] in ("bin", "ckd") and m[1] == "Mul":
                    for q, c in ((m[2], m[3]), (m[3], m[2])):
                        qs = strip_casts(q)
                        if c[0] == "const" and qs[0] in ("bin", "ckd") and qs[1] == "Div" and qs[3] == c and same(strip_casts(qs[2]), strip_casts(a)):
                            ia = self.ev(a, d + 1)
                            if ia is not None and ia[0] >= 0 and c[1] > 0:
                                self.notes.append("idiom x-(x/c)*c == x mod c")
                                return self.refine(e, (0, min(c[1] - 1, ia[1])))
            ia, ib = self.ev(a, d + 1), self.ev(b, d + 1)
            if ia is None or ib is None:
                r = None
            elif op == "Add":
                r = (ia[0] + ib[0], ia[1] + ib[1])
            elif op == "Sub":
                r = (ia[0] - ib[1], ia[1] - ib[0])
            elif op == "Mul":
                c = [ia[0] * ib[0], ia[0] * ib[1], ia[1] * ib[0], ia[1] * ib[1]]
                r = (min(c), max(c))
            elif op == "Div" and ib[0] > 0:
                c = [ia[0] // ib[0], ia[0] // ib[1], ia[1] // ib[0], ia[1] // ib[1]]
                r = (min(c), max(c))
            elif op == "Rem" and ib[0] > 0 and ia[0] >= 0:
                r = (0, min(ia[1], ib[1] - 1))
            elif op == "Shr" and ib[0] == ib[1] and ia[0] >= 0:
                r = (ia[0] >> ib[0], ia[1] >> ib[0])
            elif op == "Shl" and ib[0] == ib[1] and ia[0] >= 0:
                r = (ia[0] << ib[0], ia[1] << ib[0])
            elif op == "BitAnd" and ib[0] == ib[1] and ib[0] >= 0:
                r = (0, ib[0])
            else:
                r = None
        else:
            r = self.leaf(e)
        return self.refine(e, r)
