"""Condition provenance, place canonicalisation, derived-from closure over one MIR body."""
from collections import defaultdict, deque
from .facts import Place, Operand, Rvalue, Stmt, Term, path_endswith, short_ty

CMP_OPS = ("Eq", "Ne", "Lt", "Le", "Gt", "Ge")
NEG = {"Eq": "Ne", "Ne": "Eq", "Lt": "Ge", "Ge": "Lt", "Gt": "Le", "Le": "Gt"}
SWAP = {"Eq": "Eq", "Ne": "Ne", "Lt": "Gt", "Gt": "Lt", "Le": "Ge", "Ge": "Le"}


def single_def(mir, local):
    ds = mir.whole_defs(local)
    if len(ds) == 1 and not mir.is_arg(local):
        return ds[0]
    return None


class Cond:
    """Description of what a SwitchInt tests.

    kind: 'call' (event=Term, bb_ev), 'cmp' (event=Stmt with binop), 'discr' (place, ty, root def),
          'const', 'param', 'join', 'unknown'
    For boolean conditions: true_targets / false_targets are the successor blocks taken when the
    *event* evaluates to true/false (Not already folded in).
    For discr: value -> target in `arms`, plus otherwise.
    """

    def __init__(self):
        self.kind = "unknown"
        self.bb = None
        self.event = None
        self.event_bb = None
        self.place = None
        self.ty = None
        self.negated = False
        self.arms = []
        self.otherwise = None
        self.root = None  # for discr: Origin of the scrutinee

    def is_bool(self):
        return self.kind in ("call", "cmp", "join", "param", "unknown", "const") and self._bool

    def true_target(self):
        """successor taken when the event is true (bool switches only)"""
        # switch on bool: arms [(0, F)] otherwise T
        f = None
        for v, b in self.arms:
            if v == 0:
                f = b
        t = self.otherwise
        if len(self.arms) == 1 and self.arms[0][0] != 0:
            # switchInt(x) [1 -> T, otherwise F]
            t = self.arms[0][1]
            f = self.otherwise
        return f if self.negated else t

    def false_target(self):
        f = None
        for v, b in self.arms:
            if v == 0:
                f = b
        t = self.otherwise
        if len(self.arms) == 1 and self.arms[0][0] != 0:
            t = self.arms[0][1]
            f = self.otherwise
        return t if self.negated else f

    def target_for(self, value):
        for v, b in self.arms:
            if v == value:
                return b
        return self.otherwise

    def __repr__(self):
        if self.kind == "call":
            return "%scall %r" % ("!" if self.negated else "", self.event.callee)
        if self.kind == "cmp":
            return "%s%r" % ("!" if self.negated else "", self.event.rv)
        if self.kind == "discr":
            return "discriminant(%r: %s)" % (self.place, short_ty(self.ty or ""))
        return self.kind


def trace_bool(mir, operand, depth=0):
    """Follow a boolean/integer operand back to its defining event.
    returns (kind, event, event_bb, negated)"""
    neg = False
    op = operand
    for _ in range(32):
        if op.place is None:
            return ("const", op, None, neg)
        pl = op.place
        if not pl.is_local():
            return ("place", pl, None, neg)
        if mir.is_arg(pl.local):
            return ("param", pl, None, neg)
        ds = mir.whole_defs(pl.local)
        if len(ds) != 1:
            return ("join", ds, None, neg)
        k, bb, i, obj = ds[0]
        if k == "t":
            return ("call", obj, bb, neg)
        rv = obj.rv
        if rv is None:
            return ("unknown", obj, bb, neg)
        if rv.kind == "use":
            op = rv.ops[0]
            continue
        if rv.kind == "unop" and rv.op == "Not":
            neg = not neg
            op = rv.ops[0]
            continue
        if rv.kind == "cast" and rv.cast_kind in ("IntToInt",):
            op = rv.ops[0]
            continue
        if rv.kind == "binop" and rv.op in CMP_OPS:
            return ("cmp", obj, bb, neg)
        if rv.kind == "discr":
            return ("discr", obj, bb, neg)
        return ("unknown", obj, bb, neg)
    return ("unknown", None, None, neg)


def switch_cond(mir, bb):
    t = mir.blocks[bb].term
    if t.kind != "switch":
        return None
    c = Cond()
    c.bb = bb
    c.arms = list(t.arms)
    c.otherwise = t.otherwise
    kind, ev, ebb, neg = trace_bool(mir, t.discr)
    c.kind = kind
    c.event = ev
    c.event_bb = ebb
    c.negated = neg
    if kind == "discr":
        c.place = ev.rv.place
        c.ty = ev.rv.ty
        c.root = origin_of_place(mir, c.place)
    return c


def all_conds(mir):
    out = {}
    for b in mir.blocks:
        if b.term.kind == "switch":
            out[b.idx] = switch_cond(mir, b.idx)
    return out


# ------------------------------------------------------------------------------
# origins


class Origin:
    """Where a value comes from (one step of def-chasing folded).
    kind: 'const' (value/const json), 'adt' (Rvalue aggregate), 'place' (canonical root+path),
          'call' (Term, bb), 'param' (n), 'promoted' (Mir), 'join', 'unknown'
    path: tuple of field names applied *after* the root."""

    def __init__(self, kind, obj=None, bb=None, path=()):
        self.kind = kind
        self.obj = obj
        self.bb = bb
        self.path = tuple(path)

    def __repr__(self):
        p = "".join("." + str(x) for x in self.path)
        if self.kind == "param":
            return "arg%s%s" % (self.obj, p)
        if self.kind == "call":
            return "call(%r)%s" % (self.obj.callee, p)
        if self.kind == "const":
            return "const(%r)%s" % (self.obj, p)
        if self.kind == "adt":
            return "%r%s" % (self.obj, p)
        return "%s%s" % (self.kind, p)


def _proj_path(proj):
    out = []
    for p in proj:
        if p[0] == "field":
            out.append(p[4])
        elif p[0] == "index":
            out.append("[]")
        elif p[0] == "cindex":
            out.append("[%d]" % p[1])
        elif p[0] == "downcast":
            out.append("as " + p[1])
        elif p[0] == "subslice":
            out.append("[..]")
        # deref / opaque are transparent
    return out


TRANSPARENT_CALLS = (
    "core::ops::Deref::deref", "core::ops::DerefMut::deref_mut",
    "std::ops::Deref::deref", "std::ops::DerefMut::deref_mut",
    "core::convert::AsRef::as_ref", "core::convert::AsMut::as_mut",
    "core::borrow::Borrow::borrow", "core::borrow::BorrowMut::borrow_mut",
    "core::clone::Clone::clone", "std::clone::Clone::clone",
    "core::option::Option::as_ref", "core::option::Option::as_mut",
    "std::option::Option::as_ref", "std::option::Option::as_mut",
    "core::option::Option::as_deref", "std::option::Option::as_deref",
    "core::convert::Into::into", "core::convert::From::from",
    "std::convert::Into::into", "std::convert::From::from",
    "core::iter::IntoIterator::into_iter", "std::iter::IntoIterator::into_iter",
    "core::pin::Pin::new_unchecked", "std::pin::Pin::new_unchecked", "core::pin::Pin::new", "std::pin::Pin::new",
    "core::pin::Pin::get_mut", "core::pin::Pin::as_mut", "std::pin::Pin::as_mut", "std::pin::Pin::get_mut",
)


def is_transparent_call(term, extra=()):
    c = term.callee
    if c.indirect:
        return False
    for s in TRANSPARENT_CALLS + tuple(extra):
        if c.is_(s) or (c.trait and c.name == s):
            return True
    return False


def origin_of_place(mir, place, transparent=(), _depth=0):
    """Canonical origin of a place: chases single-def temporaries through refs, copies, moves,
    and (optionally) transparent calls such as Deref::deref / clone."""
    path = _proj_path(place.proj)
    local = place.local
    for _ in range(48):
        if mir.is_arg(local):
            return Origin("param", local, None, path)
        ds = mir.whole_defs(local)
        if len(ds) == 0:
            return Origin("local", local, None, path)
        if len(ds) > 1:
            return Origin("join", local, None, path)
        k, bb, i, obj = ds[0]
        if k == "t":
            if is_transparent_call(obj, transparent) and obj.args and obj.args[0].place is not None:
                p2 = obj.args[0].place
                path = _proj_path(p2.proj) + path
                local = p2.local
                continue
            return Origin("call", obj, bb, path)
        rv = obj.rv
        if rv is None:
            return Origin("unknown", obj, bb, path)
        if rv.kind in ("ref", "rawptr"):
            path = _proj_path(rv.place.proj) + path
            local = rv.place.local
            continue
        if rv.kind == "use" or (rv.kind == "cast" and rv.cast_kind.startswith("PointerCoercion")):
            op = rv.ops[0]
            if op.place is not None:
                path = _proj_path(op.place.proj) + path
                local = op.place.local
                continue
            return Origin("const", op.const, bb, path)
        if rv.kind == "aggregate":
            return Origin("adt", rv, bb, path)
        return Origin("rvalue", obj, bb, path)
    return Origin("unknown", None, None, path)


def origin_of_operand(mir, op, transparent=()):
    if op.place is None:
        return Origin("const", op.const)
    return origin_of_place(mir, op.place, transparent)


def promoted_value(body, const_json):
    """For `promoted[N]` constants: return the Origin of the promoted body's return value
    (usually a reference to an aggregate or constant)."""
    n = const_json.get("promoted")
    if n is None or n >= len(body.promoted):
        return None
    pm = body.promoted[n]
    return origin_of_place(pm, Place([0, []])), pm


def const_enum_variant(body, mir, op):
    """If operand (possibly a reference, possibly via promoted) denotes a constant enum variant /
    unit struct aggregate, return (adt, variant) else None."""
    o = origin_of_operand(mir, op)
    if o.kind == "const" and isinstance(o.obj, dict) and "promoted" in o.obj:
        r = promoted_value(body, o.obj)
        if r is None:
            return None
        o, pm = r
    if o.kind == "adt" and o.obj.agg.get("k") == "adt" and not o.path:
        return (o.obj.agg["adt"], o.obj.agg["variant"])
    return None


# ------------------------------------------------------------------------------
# derived-from closure (flow-insensitive)


def dep_graph(mir, through_mut=True):
    """local -> set(locals it may derive from)"""
    g = defaultdict(set)
    for bb, i, s in mir.stmts():
        if s.kind != "assign":
            continue
        used = s.rv.locals_used()
        g[s.lhs.local].update(used)
        for p in s.lhs.proj:
            if p[0] == "index":
                g[s.lhs.local].add(p[1])
        # a mutable borrow aliases: later writes through the borrow reach the base
        if s.rv.kind == "ref" and s.rv.ref_kind == "mut" and through_mut:
            g[s.rv.place.local].add(s.lhs.local)
    for b in mir.blocks:
        t = b.term
        if t.kind == "call":
            used = t.locals_used()
            if t.dest is not None:
                g[t.dest.local].update(used)
            if through_mut:
                for a in t.args:
                    if a.place is not None and mir.locals[a.place.local].startswith("&mut"):
                        g[a.place.local].update(u for u in used if u != a.place.local)
    return g


def derives_from(mir, local, g=None):
    """transitive set of locals `local` may derive from (including itself)"""
    g = g or dep_graph(mir)
    seen = {local}
    q = deque([local])
    while q:
        x = q.popleft()
        for y in g.get(x, ()):
            if y not in seen:
                seen.add(y)
                q.append(y)
    return seen


def operand_derives_from(mir, op, sources, g=None):
    if op.place is None:
        return False
    d = derives_from(mir, op.place.local, g)
    return bool(d & set(sources))


def call_events_feeding(mir, local, g=None):
    """call terminators whose destination is in the derived-from closure of `local`"""
    d = derives_from(mir, local, g)
    out = []
    for bb, t in mir.calls():
        if t.dest is not None and t.dest.local in d:
            out.append((bb, t))
    return out


# ------------------------------------------------------------------------------
# guard helpers


def guard_edges(mir, pred):
    """[(bb, target)] for every switch whose Cond satisfies pred(cond) -> 'true'|'false'|value|None.
    pred returns which outcome is the *guarding* edge."""
    out = []
    for bb, c in all_conds(mir).items():
        r = pred(c)
        if r is None:
            continue
        if r == "true":
            tgt = c.true_target()
        elif r == "false":
            tgt = c.false_target()
        else:
            tgt = c.target_for(r)
        if tgt is not None:
            out.append((bb, tgt))
    return out


def other_edges(mir, bb, keep_target):
    return [(bb, s) for s in mir.succ(bb) if s != keep_target]


def only_through(mir, event_blocks, guards):
    """True iff every path entry -> event block passes one of the guard edges.
    Implemented by *removing* guard edges and testing reachability."""
    r = mir.reachable(0, removed_edges=guards)
    return not (r & set(event_blocks))


def dominated_by_edge(mir, event_bb, edge):
    """event_bb reachable only via edge (bb->tgt): remove the edge, event must become unreachable."""
    return event_bb not in mir.reachable(0, removed_edges=[edge])
