"""Path-sensitive (per CFG edge) interval-set analysis for ONE subject value.

The subject is a value identified by a predicate on Origins (e.g. "parameter 2", or "the
result of call X"). Branch conditions that compare the subject against integer constants
(BinaryOp comparisons, RangeInclusive/Range::contains on constant ranges, match on integer
values) restrict the admissible set on each outgoing edge; every other condition restricts
nothing. The result maps each basic block to the set of subject values with which the block
can be entered (an over-approximation: unrelated conditions never remove values).
"""
from .flow import switch_cond, origin_of_operand, origin_of_place, SWAP, NEG
from .facts import Place

UMAX = (1 << 64) - 1
IMIN = -(1 << 63)


class ISet:
    """Finite union of closed integer intervals."""
    __slots__ = ("iv",)

    def __init__(self, iv=()):
        self.iv = self._norm(iv)

    @staticmethod
    def _norm(iv):
        iv = sorted((a, b) for a, b in iv if a <= b)
        out = []
        for a, b in iv:
            if out and a <= out[-1][1] + 1:
                out[-1] = (out[-1][0], max(out[-1][1], b))
            else:
                out.append((a, b))
        return tuple(out)

    @classmethod
    def full(cls, lo=0, hi=UMAX):
        return cls([(lo, hi)])

    @classmethod
    def empty(cls):
        return cls([])

    def union(self, o):
        return ISet(self.iv + o.iv)

    def intersect(self, o):
        out = []
        for a, b in self.iv:
            for c, d in o.iv:
                lo, hi = max(a, c), min(b, d)
                if lo <= hi:
                    out.append((lo, hi))
        return ISet(out)

    def complement(self, lo=0, hi=UMAX):
        out = []
        cur = lo
        for a, b in self.iv:
            if a > cur:
                out.append((cur, a - 1))
            cur = max(cur, b + 1)
        if cur <= hi:
            out.append((cur, hi))
        return ISet(out)

    def is_empty(self):
        return not self.iv

    def __eq__(self, o):
        return isinstance(o, ISet) and self.iv == o.iv

    def __hash__(self):
        return hash(self.iv)

    def subset_of(self, o):
        return self.intersect(o) == self

    def max(self):
        return self.iv[-1][1] if self.iv else None

    def min(self):
        return self.iv[0][0] if self.iv else None

    def sample_outside(self, o):
        d = self.intersect(o.complement(IMIN, UMAX))
        return d.iv[0][0] if d.iv else None

    def __repr__(self):
        if not self.iv:
            return "{}"
        return " u ".join("[%s..%s]" % (a, "MAX" if b == UMAX else b) for a, b in self.iv)


def cmp_set(op, c, lo=0, hi=UMAX):
    """set of x with  x <op> c"""
    if op == "Eq":
        return ISet([(c, c)])
    if op == "Ne":
        return ISet([(c, c)]).complement(lo, hi)
    if op == "Lt":
        return ISet([(lo, c - 1)])
    if op == "Le":
        return ISet([(lo, c)])
    if op == "Gt":
        return ISet([(c + 1, hi)])
    if op == "Ge":
        return ISet([(c, hi)])
    raise ValueError(op)


def _const_range_of(mir, op):
    """operand (usually &range) -> (lo, hi) inclusive when the range was built from constants."""
    o = origin_of_operand(mir, op)
    if o.path:
        return None
    if o.kind == "call":
        t = o.obj
        if t.callee.is_("RangeInclusive::new") and len(t.args) == 2:
            a, b = t.args[0].const_int(), t.args[1].const_int()
            if a is not None and b is not None:
                return (a, b)
    if o.kind == "adt":
        rv = o.obj
        if rv.agg.get("k") == "adt" and rv.agg["adt"].endswith("ops::Range") and len(rv.ops) == 2:
            a, b = rv.ops[0].const_int(), rv.ops[1].const_int()
            if a is not None and b is not None:
                return (a, b - 1)
    return None


class SubjectAnalysis:
    def __init__(self, mir, is_subject, lo=0, hi=UMAX, body=None, eb=None, removed_edges=(), removed_blocks=()):
        """is_subject(expr) -> bool   (expr as built by vplib.expr.ExprBuilder; casts are stripped first)"""
        from .expr import ExprBuilder
        self.mir = mir
        self.eb = eb or ExprBuilder(mir, body)
        self.is_subject = is_subject
        self.lo, self.hi = lo, hi
        self.state = {}
        self.relevant_conds = []
        self.removed_edges = set(tuple(x) for x in removed_edges)
        self.removed_blocks = set(removed_blocks)
        self._run()

    def _subj_op(self, op):
        if op.place is None:
            return False
        width = {"u8": 8, "i8": 8, "u16": 16, "i16": 16, "u32": 32, "i32": 32, "u64": 64, "i64": 64, "usize": 64, "isize": 64, "u128": 128, "i128": 128}
        try:
            e = self.eb.operand(op)
            while e[0] == "cast":
                # a truncating cast is not transparent: a test of `x as u16` says nothing about the range of a wider x
                if len(e) > 4 and e[4] in width and e[1] in width and width[e[4]] > width[e[1]]:
                    return False
                e = e[2]
            return bool(self.is_subject(e))
        except Exception:
            return False

    def edge_sets(self, bb):
        """{target: ISet restriction} for the switch in bb, or None if unrelated"""
        m = self.mir
        c = switch_cond(m, bb)
        if c is None:
            return None
        full = ISet.full(self.lo, self.hi)
        if c.kind == "cmp":
            rv = c.event.rv
            a, b = rv.ops
            op = rv.op
            cst = None
            if self._subj_op(a) and b.const_int() is not None:
                cst = b.const_int()
            elif self._subj_op(b) and a.const_int() is not None:
                cst = a.const_int()
                op = SWAP[op]
            if cst is None:
                return None
            s_true = cmp_set(op, cst, self.lo, self.hi)
            s_false = s_true.complement(self.lo, self.hi)
            self.relevant_conds.append((bb, "%s %s" % (op, cst)))
            return self._bool_edges(c, s_true, s_false)
        if c.kind == "call":
            t = c.event
            cal = t.callee
            if (cal.is_("RangeInclusive::contains") or cal.is_("Range::contains")) and len(t.args) == 2:
                r = _const_range_of(m, t.args[0])
                if r is not None and self._subj_op(t.args[1]):
                    s_true = ISet([r]).intersect(full)
                    s_false = s_true.complement(self.lo, self.hi)
                    self.relevant_conds.append((bb, "in %s..=%s" % r))
                    return self._bool_edges(c, s_true, s_false)
            # PartialOrd/PartialEq calls on integers: lt(&x,&c) etc.
            meth = {"lt": "Lt", "le": "Le", "gt": "Gt", "ge": "Ge", "eq": "Eq", "ne": "Ne"}.get(cal.method())
            if meth and cal.trait and len(t.args) == 2:
                a, b = t.args
                ca, cb = self._const_through_ref(a), self._const_through_ref(b)
                op = meth
                cst = None
                if self._subj_op(a) and cb is not None:
                    cst = cb
                elif self._subj_op(b) and ca is not None:
                    cst = ca
                    op = SWAP[op]
                if cst is not None:
                    s_true = cmp_set(op, cst, self.lo, self.hi)
                    self.relevant_conds.append((bb, "%s %s" % (op, cst)))
                    return self._bool_edges(c, s_true, s_true.complement(self.lo, self.hi))
            return None
        # direct switch on the subject's integer value (match x { 0 => .., 1 => .. })
        t = m.blocks[bb].term
        if self._subj_op(t.discr) and not t.discr_ty == "bool":
            out = {}
            taken = ISet.empty()
            for v, tgt in t.arms:
                s = ISet([(v, v)])
                taken = taken.union(s)
                out[tgt] = out.get(tgt, ISet.empty()).union(s)
            rest = taken.complement(self.lo, self.hi)
            out[t.otherwise] = out.get(t.otherwise, ISet.empty()).union(rest)
            self.relevant_conds.append((bb, "match"))
            return out
        return None

    def _const_through_ref(self, op):
        if op.const_int() is not None:
            return op.const_int()
        o = origin_of_operand(self.mir, op)
        if o.kind == "const" and isinstance(o.obj, dict) and not o.path:
            return o.obj.get("v")
        return None

    def _bool_edges(self, c, s_true, s_false):
        out = {}
        tt, ft = c.true_target(), c.false_target()
        if tt is not None:
            out[tt] = out.get(tt, ISet.empty()).union(s_true)
        if ft is not None:
            out[ft] = out.get(ft, ISet.empty()).union(s_false)
        return out

    def _run(self):
        m = self.mir
        full = ISet.full(self.lo, self.hi)
        state = {0: full}
        edge_cache = {}
        work = [0]
        iters = 0
        while work and iters < 20000:
            iters += 1
            b = work.pop()
            cur = state[b]
            if b not in edge_cache:
                edge_cache[b] = self.edge_sets(b) if m.blocks[b].term.kind == "switch" else None
            es = edge_cache[b]
            for s in m.succ(b):
                if (b, s) in self.removed_edges or s in self.removed_blocks:
                    continue
                out = cur if es is None or s not in es else cur.intersect(es[s])
                old = state.get(s)
                new = out if old is None else old.union(out)
                if old is None or new != old:
                    state[s] = new
                    work.append(s)
        self.state = state

    def at(self, bb):
        return self.state.get(bb, ISet.empty())
