"""Symbolic expression reconstruction from MIR def chains, and a tiny pattern matcher.

An expression is a nested tuple:
  ('const', v)                     integer / bool / char constant
  ('named', def_name)              named constant item (value unknown or non-scalar)
  ('str', s) | ('fn', name) | ('zst',) | ('promoted', n)
  ('param', n, path)               function parameter n (1-based MIR local), path = field names
  ('local', n, path)               local with no / several definitions (user variable)
  ('call', name, args, bb, path)   result of a call; name = resolved callee path (generics stripped)
  ('bin', op, a, b)                Add Sub Mul Div Rem BitAnd BitOr BitXor Shl Shr Eq Ne Lt Le Gt Ge
  ('ovf', op, a, b)                overflow flag of a checked op
  ('un', op, a)                    Not Neg PtrMetadata
  ('cast', to_ty, a, kind)
  ('adt', adt, variant, args, path)
  ('agg', kind, args, path)        tuple / array / closure
  ('discr', a)
  ('rv', text)                     anything else
References, dereferences, copies and moves are transparent.
"""
from .facts import Place, Operand, strip_generics, short_ty
from .flow import TRANSPARENT_CALLS, is_transparent_call, trace_bool, switch_cond

MAXDEPTH = 28


def _proj_names(proj):
    out = []
    for p in proj:
        if p[0] == "field":
            out.append(p[4])
        elif p[0] == "index":
            out.append("[]")
        elif p[0] == "cindex":
            out.append("[%s%d]" % ("-" if p[3] else "", p[1]))
        elif p[0] == "downcast":
            out.append("as " + p[1])
        elif p[0] == "subslice":
            out.append("[%d..%s%d]" % (p[1], "-" if p[3] else "", p[2]))
    return tuple(out)


class ExprBuilder:
    def __init__(self, mir, body=None, transparent=(), see_through_clone=True):
        self.mir = mir
        self.body = body
        self.transparent = tuple(transparent)
        self.memo = {}
        self.terms = {}

    def operand(self, op, depth=0):
        if op.place is not None:
            return self.place(op.place, depth)
        c = op.const
        return self.const(c)

    def const(self, c):
        if "v" in c:
            return ("const", c["v"])
        if "fn_name" in c:
            return ("fn", strip_generics(c["fn_name"]))
        if "promoted" in c:
            if self.body is not None and c["promoted"] < len(self.body.promoted):
                pm = self.body.promoted[c["promoted"]]
                sub = ExprBuilder(pm, None)
                return sub.place(Place([0, []]), 0)
            return ("promoted", c["promoted"])
        if "def_name" in c:
            return ("named", strip_generics(c["def_name"]))
        if "str" in c:
            return ("str", c["str"])
        if c.get("zst"):
            return ("zst", c.get("ty"))
        return ("rv", "const %s" % c.get("ty"))

    def place(self, pl, depth=0):
        path = _proj_names(pl.proj)
        base = self.local(pl.local, depth)
        return with_path(base, path)

    def local(self, l, depth=0):
        if l in self.memo:
            return self.memo[l]
        m = self.mir
        if m.is_arg(l):
            return ("param", l, ())
        if depth > MAXDEPTH:
            return ("local", l, ())
        ds = m.whole_defs(l)
        if len(ds) != 1:
            return ("local", l, ())
        self.memo[l] = ("local", l, ())  # cycle guard
        k, bb, i, obj = ds[0]
        if k == "t":
            e = self.call(obj, bb, depth + 1)
        else:
            e = self.rvalue(obj.rv, depth + 1)
        self.memo[l] = e
        return e

    def call(self, t, bb, depth):
        c = t.callee
        if is_transparent_call(t, self.transparent) and t.args:
            return self.operand(t.args[0], depth)
        if c.indirect:
            name = "<indirect>"
        elif c.trait:
            # trait method: canonical `Trait::method` (the impl chosen is in self.terms[bb].callee)
            name = c.trait + "::" + c.method()
        else:
            name = c.best_name()
        self.terms[bb] = t
        args = tuple(self.operand(a, depth) for a in t.args) if depth <= MAXDEPTH else ()
        return ("call", name, args, bb, ())

    def rvalue(self, rv, depth):
        k = rv.kind
        if k == "use":
            return self.operand(rv.ops[0], depth)
        if k in ("ref", "rawptr"):
            return self.place(rv.place, depth)
        if k == "cast":
            if rv.cast_kind.startswith("PointerCoercion") or rv.cast_kind in ("PtrToPtr", "Subtype", "Transmute") and rv.from_ty == rv.to_ty:
                return self.operand(rv.ops[0], depth)
            return ("cast", rv.to_ty, self.operand(rv.ops[0], depth), rv.cast_kind, rv.from_ty)
        if k == "binop":
            op = rv.op
            a = self.operand(rv.ops[0], depth)
            b = self.operand(rv.ops[1], depth)
            if op.endswith("WithOverflow"):
                return ("ckd", op[:-12], a, b)
            if op.endswith("Unchecked"):
                op = op[:-9]
            return ("bin", op, a, b)
        if k == "unop":
            return ("un", rv.op, self.operand(rv.ops[0], depth))
        if k == "discr":
            return ("discr", self.place(rv.place, depth))
        if k == "aggregate":
            a = rv.agg
            args = tuple(self.operand(o, depth) for o in rv.ops)
            if a["k"] == "adt":
                return ("adt", a["adt"], a["variant"], args, ())
            return ("agg", a["k"], args, ())
        if k == "repeat":
            return ("agg", "repeat", (self.operand(rv.ops[0], depth),), ())
        return ("rv", str(rv.j)[:80])


def with_path(e, path):
    if not path:
        return e
    tag = e[0]
    if tag == "ckd":
        # (x, overflowed) tuple of a checked op
        if path[0] == "0":
            return with_path(("bin", e[1], e[2], e[3]), path[1:])
        if path[0] == "1":
            return with_path(("ovf", e[1], e[2], e[3]), path[1:])
    if tag in ("param", "local"):
        return (tag, e[1], e[2] + tuple(path))
    if tag == "call":
        return ("call", e[1], e[2], e[3], e[4] + tuple(path))
    if tag == "adt":
        # field of a known aggregate: resolve when possible (tuple-like / named fields unknown here)
        return ("adt", e[1], e[2], e[3], e[4] + tuple(path))
    if tag == "agg":
        if e[1] == "tuple" and path[0].isdigit() and int(path[0]) < len(e[2]) and not e[3]:
            return with_path(e[2][int(path[0])], path[1:])
        return ("agg", e[1], e[2], e[3] + tuple(path))
    return ("proj", e, tuple(path))


# ------------------------------------------------------------------------------------
# pretty printing

_SYM = {"Add": "+", "Sub": "-", "Mul": "*", "Div": "/", "Rem": "%", "Eq": "==", "Ne": "!=", "Lt": "<", "Le": "<=",
        "Gt": ">", "Ge": ">=", "BitAnd": "&", "BitOr": "|", "BitXor": "^", "Shl": "<<", "Shr": ">>"}


def show(e, mir=None, d=0):
    if d > 6:
        return "…"
    t = e[0]
    if t == "const":
        return str(e[1])
    if t == "named":
        return e[1].split("::")[-1]
    if t == "str":
        return repr(e[1])
    if t == "fn":
        return "fn " + e[1].split("::")[-1]
    if t in ("param", "local"):
        n = None
        if mir is not None:
            n = mir.name_of(e[1])
        base = n or ("arg%d" % e[1] if t == "param" else "_%d" % e[1])
        return base + "".join("." + p for p in e[2])
    if t == "call":
        nm = "::".join(e[1].split("::")[-2:])
        return "%s(%s)%s" % (nm, ", ".join(show(a, mir, d + 1) for a in e[2]), "".join("." + p for p in e[4]))
    if t in ("bin", "ckd"):
        return "(%s %s %s)" % (show(e[2], mir, d + 1), _SYM.get(e[1], e[1]), show(e[3], mir, d + 1))
    if t == "ovf":
        return "overflow(%s %s %s)" % (show(e[2], mir, d + 1), _SYM.get(e[1], e[1]), show(e[3], mir, d + 1))
    if t == "un":
        return "%s(%s)" % (e[1], show(e[2], mir, d + 1))
    if t == "cast":
        return "(%s as %s)" % (show(e[2], mir, d + 1), e[1])
    if t == "adt":
        return "%s::%s(%s)%s" % (short_ty(e[1]), e[2], ", ".join(show(a, mir, d + 1) for a in e[3]), "".join("." + p for p in e[4]))
    if t == "agg":
        return "%s(%s)%s" % (e[1], ", ".join(show(a, mir, d + 1) for a in e[2]), "".join("." + p for p in e[3]))
    if t == "discr":
        return "discriminant(%s)" % show(e[1], mir, d + 1)
    if t == "proj":
        return "%s%s" % (show(e[1], mir, d + 1), "".join("." + p for p in e[2]))
    return str(e[1]) if len(e) > 1 else t


# ------------------------------------------------------------------------------------
# queries over expressions


def walk(e):
    """all sub-expressions (pre-order)"""
    yield e
    t = e[0]
    if t == "call":
        for a in e[2]:
            yield from walk(a)
    elif t in ("bin", "ckd", "ovf"):
        yield from walk(e[2])
        yield from walk(e[3])
    elif t in ("un", "cast"):
        yield from walk(e[2])
    elif t == "adt":
        for a in e[3]:
            yield from walk(a)
    elif t == "agg":
        for a in e[2]:
            yield from walk(a)
    elif t in ("discr", "proj"):
        yield from walk(e[1])


def calls_in(e, suffix=None):
    from .facts import path_endswith
    out = []
    for s in walk(e):
        if s[0] == "call" and (suffix is None or path_endswith(s[1], suffix)):
            out.append(s)
    return out


def mentions_call(e, *suffixes):
    from .facts import path_endswith
    for s in walk(e):
        if s[0] == "call":
            for suf in suffixes:
                if path_endswith(s[1], suf):
                    return True
    return False


def mentions_param(e, n=None, path_prefix=None):
    for s in walk(e):
        if s[0] == "param" and (n is None or s[1] == n):
            if path_prefix is None or tuple(s[2][:len(path_prefix)]) == tuple(path_prefix):
                return True
    return False


def _has_field(path, field):
    # closure captures of a field path are named `base__field` by rustc
    suf = "__" + field
    for p in path:
        if p == field or (isinstance(p, str) and p.endswith(suf)):
            return True
    return False


def mentions_field(e, field):
    for s in walk(e):
        if s[0] in ("param", "local") and _has_field(s[2], field):
            return True
        if s[0] == "call" and _has_field(s[4], field):
            return True
        if s[0] == "proj" and _has_field(s[2], field):
            return True
        if s[0] in ("adt", "agg") and _has_field(s[-1] if s[0] == "agg" else s[4], field):
            return True
    return False


def mentions_local(e, l):
    for s in walk(e):
        if s[0] in ("param", "local") and s[1] == l:
            return True
    return False


def mentions_local_named(mir, e, name):
    """a user variable called `name` (or a projection of it) occurs in e"""
    for s in walk(e):
        if s[0] in ("param", "local") and mir.name_of(s[1]) == name:
            return True
    return False


def strip_casts(e):
    while e[0] == "cast":
        e = e[2]
    return e


_ARITH_CALLS = {"saturating_add": "Add", "wrapping_add": "Add", "saturating_sub": "Sub", "wrapping_sub": "Sub",
                "saturating_mul": "Mul", "wrapping_mul": "Mul"}


def arith_norm(e):
    """x.saturating_add(c) / wrapping_add / ... read as the plain operation: rules that recognise `base - 1` or
    `max + 1` must not depend on how overflow is treated at the extreme values."""
    if e[0] == "call" and not e[4] and len(e[2]) == 2:
        m = e[1].rsplit("::", 1)[-1]
        if m in _ARITH_CALLS and e[1].split("::")[-2:-1] and e[1].split("::")[-2] in ("i8", "i16", "i32", "i64", "i128", "isize", "u8", "u16", "u32", "u64", "u128", "usize"):
            return ("bin", _ARITH_CALLS[m], arith_norm(e[2][0]), arith_norm(e[2][1]))
    if e[0] == "cast":
        return e[:2] + (arith_norm(e[2]),) + e[3:]
    if e[0] in ("bin", "ckd"):
        return (e[0], e[1], arith_norm(e[2]), arith_norm(e[3]))
    return e


def is_call(e, *suffixes):
    from .facts import path_endswith
    if e[0] != "call":
        return False
    return any(path_endswith(e[1], s) for s in suffixes)


def same(a, b):
    """structural equality ignoring the bb identity of calls"""
    if a[0] != b[0]:
        return False
    if a[0] == "call":
        return a[1] == b[1] and a[4] == b[4] and len(a[2]) == len(b[2]) and all(same(x, y) for x, y in zip(a[2], b[2]))
    if len(a) != len(b):
        return False
    for x, y in zip(a[1:], b[1:]):
        if isinstance(x, tuple) and isinstance(y, tuple) and x and y and isinstance(x[0], str) and isinstance(y[0], str) and x[0] in _TAGS:
            if not same(x, y):
                return False
        elif isinstance(x, tuple) and isinstance(y, tuple) and len(x) == len(y) and all(isinstance(i, tuple) for i in x + y):
            if not all(same(i, j) for i, j in zip(x, y)):
                return False
        elif x != y:
            return False
    return True


_TAGS = {"const", "named", "str", "fn", "zst", "promoted", "param", "local", "call", "bin", "ckd", "ovf", "un", "cast",
         "adt", "agg", "discr", "rv", "proj"}


# ------------------------------------------------------------------------------------
# conditions


class CondExpr:
    """A switch with its condition as an expression.
    For boolean conditions `expr` is the tested expression and true_target/false_target are
    the successors for expr == true / false.  For discriminant switches, `expr` is
    ('discr', scrutinee) and `arms` map variant index -> target."""

    def __init__(self, bb, expr, true_target, false_target, arms, otherwise, cond):
        self.bb = bb
        self.expr = expr
        self.true_target = true_target
        self.false_target = false_target
        self.arms = arms
        self.otherwise = otherwise
        self.cond = cond

    def is_discr(self):
        return self.expr[0] == "discr"

    def target_for(self, v):
        for a, b in self.arms:
            if a == v:
                return b
        return self.otherwise


def cond_exprs(mir, body=None, eb=None):
    eb = eb or ExprBuilder(mir, body)
    out = {}
    for b in mir.blocks:
        t = b.term
        if t.kind != "switch":
            continue
        c = switch_cond(mir, b.idx)
        e = eb.operand(t.discr)
        neg = False
        while e[0] == "un" and e[1] == "Not":
            e = e[2]
            neg = not neg
        tt = ft = None
        if t.discr_ty == "bool" or e[0] in ("bin",) and e[1] in ("Eq", "Ne", "Lt", "Le", "Gt", "Ge"):
            f = None
            for v, tgt in t.arms:
                if v == 0:
                    f = tgt
            tr = t.otherwise
            if len(t.arms) == 1 and t.arms[0][0] != 0:
                tr, f = t.arms[0][1], t.otherwise
            tt, ft = (f, tr) if neg else (tr, f)
        out[b.idx] = CondExpr(b.idx, e, tt, ft, list(t.arms), t.otherwise, c)
    return out


def variant_edge(mir, ce, variant_name, facts=None, adt_variants=None):
    """target block of a discriminant switch for a given variant name of Option/Result or a
    local enum (needs facts for local enums)."""
    std = {"None": 0, "Some": 1, "Ok": 0, "Err": 1, "Ready": 0, "Pending": 1, "Continue": 0, "Break": 1}
    if adt_variants is not None and variant_name in adt_variants:
        v = adt_variants[variant_name]
    elif variant_name in std:
        v = std[variant_name]
    else:
        return None
    return ce.target_for(v)
