"""Obligations, known findings, evidence files, exit codes."""
import json, os, sys, time
from collections import Counter, defaultdict

VERIF = os.path.dirname(os.path.dirname(os.path.dirname(os.path.abspath(__file__))))


class Obligation:
    __slots__ = ("rule", "function", "desc", "ok", "detail", "loc", "key", "status", "what")

    def __init__(self, rule, function, desc, ok, detail="", loc=""):
        self.rule = rule
        self.function = function
        self.desc = desc
        self.ok = bool(ok)
        self.detail = detail
        self.loc = loc
        self.key = None
        self.status = None
        self.what = None

    def as_json(self):
        return {"rule": self.rule, "function": self.function, "event": self.desc, "verdict": self.status,
                "detail": self.detail, "loc": self.loc, "key": self.key}


class Report:
    def __init__(self, prop, tier="quick"):
        self.prop = prop
        self.tier = tier
        self.obls = []
        self.floors = []  # (rule, found, floor, what)
        self.notes = []
        self.infra_errors = []
        self.extra = {}
        self.t0 = time.time()

    def add(self, rule, function, desc, ok, detail="", loc=""):
        o = Obligation(rule, function, desc, ok, detail, loc)
        self.obls.append(o)
        return o

    def floor(self, rule, found, floor, what):
        self.floors.append((rule, found, floor, what))

    def note(self, s):
        self.notes.append(s)

    def infra(self, s):
        self.infra_errors.append(s)

    def assign_keys(self):
        cnt = Counter()
        for o in self.obls:
            base = "%s|%s|%s" % (o.rule, o.function, o.desc)
            cnt[base] += 1
            o.key = base if cnt[base] == 1 else "%s#%d" % (base, cnt[base])


def load_known(prop):
    p = os.path.join(VERIF, "known_findings.json")
    if not os.path.exists(p):
        return {}, []
    with open(p) as f:
        data = json.load(f)
    known = {}
    for e in data.get("findings", []):
        if e.get("property") == prop:
            known[e["key"]] = e
    fixed = [e for e in data.get("fixed", []) if e.get("property") == prop]
    return known, fixed


def finish(rep, meta, level="other", technique="", assumptions=None, seed=0):
    """Print result lines, write evidence, return exit code."""
    rep.assign_keys()
    known, fixed = load_known(rep.prop)
    n_ok = n_known = n_viol = 0
    viol = []
    used_known = set()
    for o in rep.obls:
        if o.ok:
            o.status = "discharged"
            n_ok += 1
        elif o.key in known:
            o.status = "known"
            n_known += 1
            used_known.add(o.key)
        else:
            o.status = "violated"
            n_viol += 1
            viol.append(o)
    floor_fail = [(r, f, fl, w) for (r, f, fl, w) in rep.floors if f < fl]
    ev_dir = os.path.join(VERIF, "evidence")
    os.makedirs(ev_dir, exist_ok=True)
    vdir = os.path.join(ev_dir, "%s.violations" % rep.prop)
    if os.path.isdir(vdir):
        for fn in os.listdir(vdir):
            try:
                os.unlink(os.path.join(vdir, fn))
            except OSError:
                pass
    lines = []
    for o in rep.obls:
        if o.status == "known":
            lines.append("KNOWN-FINDING: property=%s %s %s — %s" % (rep.prop, o.rule, o.function, known[o.key].get("what", o.desc)))
    # stale known findings (listed but no longer reported) are only noted
    stale = [k for k in known if k not in used_known]
    for i, o in enumerate(viol):
        os.makedirs(vdir, exist_ok=True)
        path = os.path.join(vdir, "v%03d.json" % i)
        with open(path, "w") as f:
            json.dump({"property": rep.prop, **o.as_json()}, f, indent=1)
        lines.append("VIOLATION property=%s replay=%s" % (rep.prop, path))
        lines.append("  rule=%s fn=%s at %s: %s — %s" % (o.rule, o.function, o.loc, o.desc, o.detail))
    for (r, f, fl, w) in floor_fail:
        os.makedirs(vdir, exist_ok=True)
        path = os.path.join(vdir, "floor_%s.json" % r)
        with open(path, "w") as f_:
            json.dump({"property": rep.prop, "rule": r, "found": f, "floor": fl, "what": w}, f_, indent=1)
        lines.append("VIOLATION property=%s replay=%s" % (rep.prop, path))
        lines.append("  rule=%s: only %d instances of '%s' found, floor is %d (the rule no longer sees its subject)" % (r, f, w, fl))
    for e in rep.infra_errors:
        lines.append("INFRA-ERROR property=%s %s" % (rep.prop, e))

    wall = time.time() - rep.t0
    samples = [o.as_json() for o in rep.obls if o.status != "discharged"][:40]
    samples += [o.as_json() for o in rep.obls if o.status == "discharged"][: max(5, 60 - len(samples))]
    per_rule = defaultdict(lambda: {"obligations": 0, "discharged": 0, "known": 0, "violated": 0})
    for o in rep.obls:
        pr = per_rule[o.rule]
        pr["obligations"] += 1
        pr[o.status] += 1
    distinct = len({o.key for o in rep.obls})
    coverage = {
        "explanation": ("static analysis over MIR facts extracted from /repo's current tree; "
                        "each obligation is a resolved construct (function, event) checked against the rule named"),
        "obligations": len(rep.obls),
        "discharged": n_ok,
        "known_findings": n_known,
        "violations": n_viol + len(floor_fail),
        "evaluations": max(1, len(rep.obls)),
        "distinct_nontrivial": max(2, distinct) if distinct >= 2 else distinct,
        "rule": "one obligation per rule instance (rule, function, event); distinct by key; all are non-trivial (each names a concrete MIR construct)",
        "per_rule": dict(per_rule),
        "floors": [{"rule": r, "found": f, "floor": fl, "what": w} for (r, f, fl, w) in rep.floors],
        "samples": samples if samples else [{"note": "no obligations"}],
        "units_analysed": meta,
        "notes": rep.notes,
        "stale_known_findings": stale,
        "checker_cmd": "bin/vp check %s --tier %s" % (rep.prop, rep.tier),
        "trusted_base": ["rustc nightly MIR construction + Instance::try_resolve", "engine/mirfacts extractor",
                         "engine/vplib CFG/dataflow", "tables/*.json reviewed entries"],
    }
    coverage.update(rep.extra)
    ev = {
        "property_id": rep.prop,
        "tier": rep.tier,
        "seed": seed,
        "level": level,
        "technique": technique,
        "coverage": coverage,
        "assumptions": assumptions or [],
        "wall_s": round(wall, 3),
        "violations": n_viol + len(floor_fail),
    }
    with open(os.path.join(ev_dir, "%s.json" % rep.prop), "w") as f:
        json.dump(ev, f, indent=1)
    for l in lines:
        print(l)
    print("SUMMARY property=%s tier=%s obligations=%d discharged=%d known=%d violations=%d floors_failed=%d wall=%.1fs" % (
        rep.prop, rep.tier, len(rep.obls), n_ok, n_known, n_viol, len(floor_fail), wall))
    if rep.infra_errors:
        return 2
    if n_viol or floor_fail:
        return 1
    return 0
