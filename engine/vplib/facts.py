"""Facts loader: bodies, CFG utilities, call graph.  Pure stdlib.

All rule code talks about *resolved* MIR constructs through this module; nothing here
knows about any property.
"""
import json, os, pickle, re, sys
from collections import defaultdict, deque


class AnchorError(Exception):
    """A rule could not find (or found several of) the construct it must check."""


_GEN = re.compile(r"::<[^<>]*(?:<[^<>]*(?:<[^<>]*>[^<>]*)*>[^<>]*)*>")


_SG_CACHE = {}
INDEX_VERSION = 4


def strip_generics(name):
    """`std::vec::Vec::<T>::push` -> `std::vec::Vec::push`; `VecDeque<T, A>::len` -> `VecDeque::len`;
    qualified-self forms `<T as Trait>::m` are kept."""
    if name is None:
        return None
    r = _SG_CACHE.get(name)
    if r is not None:
        return r
    out = []
    i = 0
    n = len(name)
    while i < n:
        c = name[i]
        if c == "<":
            prev = name[i - 1] if i > 0 else ""
            is_generic = prev.isalnum() or prev == "_" or (i >= 2 and name[i - 2:i] == "::")
            if is_generic:
                depth = 0
                j = i
                while j < n:
                    if name[j] == "<":
                        depth += 1
                    elif name[j] == ">" and name[j - 1] != "-":
                        depth -= 1
                        if depth == 0:
                            break
                    j += 1
                if out[-2:] == [":", ":"]:
                    out = out[:-2]
                i = j + 1
                continue
        out.append(c)
        i += 1
    r = "".join(out)
    if len(_SG_CACHE) < 200000:
        _SG_CACHE[name] = r
    return r


def short_ty(ty):
    """Last path segment of a type string, generics dropped: `a::b::Foo<T>` -> `Foo`."""
    t = ty
    t = re.sub(r"^&(?:'\w+ )?(?:mut )?", "", t)
    t = re.sub(r"<.*$", "", t)
    return t.split("::")[-1]


class Place:
    __slots__ = ("local", "proj")

    def __init__(self, j):
        self.local = j[0]
        self.proj = tuple(tuple(p) for p in j[1])

    def is_local(self):
        return not self.proj

    def fields(self):
        """Names of field projections in order."""
        return [p[4] for p in self.proj if p[0] == "field"]

    def field_path(self):
        """[(adt, field)] for field projections."""
        return [(p[2], p[4]) for p in self.proj if p[0] == "field"]

    def last_field(self):
        for p in reversed(self.proj):
            if p[0] == "field":
                return (p[2], p[4])
        return None

    def __repr__(self):
        s = "_%d" % self.local
        for p in self.proj:
            if p[0] == "deref":
                s = "(*%s)" % s
            elif p[0] == "field":
                s += "." + p[4]
            elif p[0] == "index":
                s += "[_%d]" % p[1]
            elif p[0] == "cindex":
                s += "[%s%d]" % ("-" if p[3] else "", p[1])
            elif p[0] == "downcast":
                s = "(%s as %s)" % (s, p[1])
            elif p[0] == "subslice":
                s += "[%d..%s%d]" % (p[1], "-" if p[3] else "", p[2])
            else:
                s += "." + p[0]
        return s


class Operand:
    __slots__ = ("kind", "place", "const")

    def __init__(self, j):
        self.kind = j[0]
        self.place = None
        self.const = None
        if self.kind in ("copy", "move"):
            self.place = Place(j[1])
        elif self.kind == "const":
            self.const = j[1]
        else:
            self.const = {"ty": "?", "other": j[1]}

    def is_const(self):
        return self.kind == "const"

    def const_int(self):
        if self.const is not None:
            return self.const.get("v")
        return None

    def const_def(self):
        if self.const is not None:
            return self.const.get("def_name")
        return None

    def locals_used(self):
        if self.place is None:
            return []
        out = [self.place.local]
        for p in self.place.proj:
            if p[0] == "index":
                out.append(p[1])
        return out

    def __repr__(self):
        if self.place is not None:
            return "%s %r" % (self.kind, self.place)
        c = self.const
        if "v" in c:
            return "const %s_%s" % (c["v"], c["ty"])
        if "fn_name" in c:
            return "fn %s" % c["fn_name"]
        if "promoted" in c:
            return "promoted[%d]" % c["promoted"]
        if "def_name" in c:
            return "const %s" % c["def_name"]
        if "str" in c:
            return "const %r" % c["str"]
        return "const <%s>" % c.get("ty")


class Rvalue:
    """kind in: use, repeat, ref, rawptr, cast, binop, unop, discr, aggregate, tls, other"""
    __slots__ = ("kind", "j", "ops", "place", "op", "agg", "cast_kind", "from_ty", "to_ty", "ty", "ref_kind")

    def __init__(self, j):
        self.j = j
        k = j[0]
        self.kind = k
        self.ops = []
        self.place = None
        self.op = None
        self.agg = None
        self.cast_kind = self.from_ty = self.to_ty = self.ty = self.ref_kind = None
        if k == "use":
            self.ops = [Operand(j[1])]
        elif k == "repeat":
            self.ops = [Operand(j[1])]
        elif k == "ref":
            self.ref_kind = j[1]
            self.place = Place(j[2])
        elif k == "rawptr":
            self.place = Place(j[1])
        elif k == "cast":
            self.cast_kind = j[1]
            self.ops = [Operand(j[2])]
            self.from_ty = j[3]
            self.to_ty = j[4]
        elif k == "binop":
            self.op = j[1]
            self.ops = [Operand(j[2]), Operand(j[3])]
            self.ty = j[4]
        elif k == "unop":
            self.op = j[1]
            self.ops = [Operand(j[2])]
        elif k == "discr":
            self.place = Place(j[1])
            self.ty = j[2]
        elif k == "aggregate":
            self.agg = j[1]
            self.ops = [Operand(o) for o in j[2]]

    def locals_used(self):
        out = []
        for o in self.ops:
            out.extend(o.locals_used())
        if self.place is not None:
            out.append(self.place.local)
            for p in self.place.proj:
                if p[0] == "index":
                    out.append(p[1])
        return out

    def is_adt(self, adt_suffix=None, variant=None):
        if self.kind != "aggregate" or self.agg.get("k") != "adt":
            return False
        if adt_suffix is not None and not path_endswith(self.agg["adt"], adt_suffix):
            return False
        if variant is not None and self.agg["variant"] != variant:
            return False
        return True

    def __repr__(self):
        k = self.kind
        if k == "use":
            return repr(self.ops[0])
        if k == "ref":
            return "&%s%r" % ("mut " if self.ref_kind == "mut" else "", self.place)
        if k == "cast":
            return "%r as %s (%s)" % (self.ops[0], self.to_ty, self.cast_kind)
        if k == "binop":
            return "%s(%r, %r)" % (self.op, self.ops[0], self.ops[1])
        if k == "unop":
            return "%s(%r)" % (self.op, self.ops[0])
        if k == "discr":
            return "discriminant(%r)" % (self.place,)
        if k == "aggregate":
            a = self.agg
            if a["k"] == "adt":
                return "%s::%s(%s)" % (short_ty(a["adt"]), a["variant"], ", ".join(map(repr, self.ops)))
            return "%s(%s)" % (a["k"], ", ".join(map(repr, self.ops)))
        return "%s" % (self.j,)


def path_endswith(path, suffix):
    """Segment-wise suffix match on `::` paths, generics ignored."""
    if path is None:
        return False
    p = strip_generics(path)
    s = strip_generics(suffix)
    if p == s:
        return True
    return p.endswith("::" + s)


class Stmt:
    __slots__ = ("kind", "lhs", "rv", "line", "exp", "j")

    def __init__(self, j):
        self.j = j
        self.kind = j["k"]
        self.line = j.get("line")
        self.exp = j.get("exp")
        self.lhs = Place(j["lhs"]) if "lhs" in j else None
        self.rv = Rvalue(j["rv"]) if "rv" in j else None

    def __repr__(self):
        if self.kind == "assign":
            return "%r = %r" % (self.lhs, self.rv)
        return "%s %r" % (self.kind, self.lhs)


class Callee:
    __slots__ = ("j", "name", "res_name", "def_id", "res_id", "trait", "self_ty", "impl_self", "res_kind",
                 "local", "res_local", "args", "indirect", "closure", "qual")

    def __init__(self, j):
        self.j = j
        self.indirect = j.get("indirect")
        self.name = strip_generics(j.get("name"))
        self.res_name = strip_generics(j.get("res_name"))
        self.def_id = j.get("def")
        self.res_id = j.get("res")
        self.trait = strip_generics(j.get("trait"))
        self.self_ty = j.get("self_ty")
        self.impl_self = j.get("impl_self")
        self.res_kind = j.get("res_kind")
        self.local = j.get("local", False)
        self.res_local = j.get("res_local", False)
        self.args = j.get("args")
        self.closure = j.get("closure")
        # inherent impl method: `path::to::Type::method` even when the impl block lives in another module
        self.qual = None
        if self.impl_self and self.name:
            self.qual = strip_generics(re.sub(r"^&(?:'\w+ )?(?:mut )?", "", self.impl_self)) + "::" + self.name.split("::")[-1]

    def best_name(self):
        if self.qual and (self.res_name is None or self.res_name == self.name):
            return self.qual
        return self.res_name or self.name or ("<indirect %s>" % self.indirect)

    def method(self):
        n = self.name or ""
        return n.split("::")[-1]

    def is_(self, *suffixes):
        """True if the (resolved or declared) callee path ends with one of the suffixes."""
        for s in suffixes:
            if path_endswith(self.res_name, s) or path_endswith(self.name, s) or path_endswith(self.qual, s):
                return True
        return False

    def is_trait_method(self, trait_suffix, method=None):
        if self.trait is None or not path_endswith(self.trait, trait_suffix):
            return False
        return method is None or self.method() == method

    def __repr__(self):
        return self.best_name()


class Term:
    __slots__ = ("j", "kind", "line", "exp", "callee", "args", "dest", "dest_ty", "target", "unwind", "discr",
                 "discr_ty", "arms", "otherwise", "assert_kind", "ops", "cond", "expected", "place", "value", "drop")

    def __init__(self, j):
        self.j = j
        self.kind = j["k"] if j else "none"
        self.line = j.get("line") if j else None
        self.exp = j.get("exp") if j else None
        self.callee = None
        self.args = []
        self.dest = None
        self.dest_ty = None
        self.target = j.get("target") if j else None
        self.unwind = j.get("unwind") if j else None
        self.discr = None
        self.discr_ty = None
        self.arms = []
        self.otherwise = None
        self.assert_kind = None
        self.ops = []
        self.cond = None
        self.expected = None
        self.place = None
        self.value = None
        self.drop = None
        k = self.kind
        if k in ("call", "tailcall"):
            self.callee = Callee(j["callee"])
            self.args = [Operand(a) for a in j["args"]]
            if "dest" in j:
                self.dest = Place(j["dest"])
                self.dest_ty = j.get("dest_ty")
        elif k == "switch":
            self.discr = Operand(j["discr"])
            self.discr_ty = j["discr_ty"]
            self.arms = [(a[0], a[1]) for a in j["arms"]]
            self.otherwise = j["otherwise"]
        elif k == "assert":
            self.cond = Operand(j["cond"])
            self.expected = j["expected"]
            self.assert_kind = j["assert_kind"]
            self.ops = [Operand(o) for o in j["ops"]]
        elif k == "drop":
            self.place = Place(j["place"])
        elif k == "yield":
            self.value = Operand(j["value"])
            self.drop = j.get("drop")

    def successors(self, unwind=False):
        k = self.kind
        out = []
        if k == "switch":
            out = [b for _, b in self.arms] + [self.otherwise]
        elif k in ("goto", "drop", "assert", "call", "yield"):
            if self.target is not None:
                out = [self.target]
        if unwind and self.unwind is not None:
            out = out + [self.unwind]
        if unwind and k == "yield" and self.drop is not None:
            out = out + [self.drop]
        # dedupe, keep order
        seen = []
        for b in out:
            if b not in seen:
                seen.append(b)
        return seen

    def locals_used(self):
        out = []
        for a in self.args:
            out.extend(a.locals_used())
        if self.discr is not None:
            out.extend(self.discr.locals_used())
        if self.cond is not None:
            out.extend(self.cond.locals_used())
        for o in self.ops:
            out.extend(o.locals_used())
        if self.value is not None:
            out.extend(self.value.locals_used())
        if self.callee is not None and self.callee.indirect and "op" in self.callee.j:
            out.extend(Operand(self.callee.j["op"]).locals_used())
        return out

    def __repr__(self):
        k = self.kind
        if k == "call":
            return "%r = %r(%s) -> bb%s" % (self.dest, self.callee, ", ".join(map(repr, self.args)), self.target)
        if k == "switch":
            return "switch(%r) %s else bb%s" % (self.discr, ["%s->bb%s" % a for a in self.arms], self.otherwise)
        if k == "assert":
            return "assert(%s %r) -> bb%s" % (self.assert_kind, self.ops, self.target)
        return "%s -> %s" % (k, self.target)


class Block:
    __slots__ = ("idx", "stmts", "term", "cleanup")

    def __init__(self, idx, j):
        self.idx = idx
        self.stmts = [Stmt(s) for s in j["s"]]
        self.term = Term(j.get("t"))
        self.cleanup = bool(j.get("cleanup"))


class Mir:
    """One MIR body (a function body or one of its promoted constants)."""

    def __init__(self, j):
        self.arg_count = j["arg_count"]
        self.locals = j["locals"]
        self.names = [(n, Place(p)) for n, p in j["names"]]
        self.blocks = [Block(i, b) for i, b in enumerate(j["blocks"])]
        self._succ = {}
        self._pred = {}
        self._defs = None
        self._dom = {}
        self._pdom = None

    # ---- names
    def local_named(self, name):
        out = [p.local for n, p in self.names if n == name and p.is_local()]
        return out

    def name_of(self, local):
        for n, p in self.names:
            if p.is_local() and p.local == local:
                return n
        return None

    def describe_local(self, l):
        n = self.name_of(l)
        return "_%d%s" % (l, ("(%s)" % n) if n else "")

    # ---- CFG
    def succ(self, b, unwind=False):
        key = (b, unwind)
        if key not in self._succ:
            self._succ[key] = self.blocks[b].term.successors(unwind)
        return self._succ[key]

    def preds(self, unwind=False):
        if unwind not in self._pred:
            p = defaultdict(list)
            for b in range(len(self.blocks)):
                for s in self.succ(b, unwind):
                    p[s].append(b)
            self._pred[unwind] = p
        return self._pred[unwind]

    def reachable(self, start=0, removed_edges=(), removed_blocks=(), unwind=False):
        removed_edges = set(removed_edges)
        removed_blocks = set(removed_blocks)
        if start in removed_blocks:
            return set()
        seen = {start}
        q = deque([start])
        while q:
            b = q.popleft()
            for s in self.succ(b, unwind):
                if (b, s) in removed_edges or s in removed_blocks or s in seen:
                    continue
                seen.add(s)
                q.append(s)
        return seen

    def reaches(self, src, dst_set, removed_edges=(), removed_blocks=(), unwind=False):
        r = self.reachable(src, removed_edges, removed_blocks, unwind)
        return bool(r & set(dst_set))

    def return_blocks(self):
        return [b.idx for b in self.blocks if b.term.kind == "return"]

    def dominators(self, unwind=False):
        """idom map via simple iterative algorithm; returns dom sets."""
        if unwind in self._dom:
            return self._dom[unwind]
        n = len(self.blocks)
        reach = self.reachable(0, unwind=unwind)
        preds = self.preds(unwind)
        order = self._rpo(unwind)
        dom = {b: None for b in reach}
        dom[0] = {0}
        changed = True
        while changed:
            changed = False
            for b in order:
                if b == 0:
                    continue
                ps = [p for p in preds[b] if p in reach and dom[p] is not None]
                if not ps:
                    continue
                new = set.intersection(*[dom[p] for p in ps]) | {b}
                if new != dom[b]:
                    dom[b] = new
                    changed = True
        self._dom[unwind] = dom
        return dom

    def dominates(self, a, b, unwind=False):
        d = self.dominators(unwind).get(b)
        return d is not None and a in d

    def _rpo(self, unwind=False):
        seen = set()
        order = []

        def dfs(b):
            stack = [(b, iter(self.succ(b, unwind)))]
            seen.add(b)
            while stack:
                node, it = stack[-1]
                adv = False
                for s in it:
                    if s not in seen:
                        seen.add(s)
                        stack.append((s, iter(self.succ(s, unwind))))
                        adv = True
                        break
                if not adv:
                    order.append(node)
                    stack.pop()

        dfs(0)
        order.reverse()
        return order

    def back_edges(self, unwind=False):
        dom = self.dominators(unwind)
        out = []
        for b in dom:
            for s in self.succ(b, unwind):
                if dom.get(b) is not None and s in dom[b]:
                    out.append((b, s))
        return out

    def natural_loops(self, unwind=False):
        """header -> set(blocks)"""
        loops = defaultdict(set)
        preds = self.preds(unwind)
        for (t, h) in self.back_edges(unwind):
            body = {h, t}
            stack = [t]
            while stack:
                x = stack.pop()
                if x == h:
                    continue
                for p in preds[x]:
                    if p not in body:
                        body.add(p)
                        stack.append(p)
            loops[h] |= body
        return dict(loops)

    def on_cycle(self, a, b):
        """True if a and b lie on a common CFG cycle (a reaches b and b reaches a)."""
        return b in self.reachable(a) and a in self.reachable(b) and (
            a != b or any(a in self.reachable(s) for s in self.succ(a)))

    # ---- defs / uses
    def defs(self):
        """local -> list of ('s', bb, i, Stmt) | ('t', bb, None, Term) that assign the *whole* local
        or a projection of it (projection flagged)."""
        if self._defs is None:
            d = defaultdict(list)
            for b in self.blocks:
                for i, s in enumerate(b.stmts):
                    if s.lhs is not None:
                        d[s.lhs.local].append(("s", b.idx, i, s))
                t = b.term
                if t.kind == "call" and t.dest is not None:
                    d[t.dest.local].append(("t", b.idx, None, t))
            self._defs = d
        return self._defs

    def whole_defs(self, local):
        out = []
        for d in self.defs().get(local, []):
            obj = d[3]
            lhs = obj.lhs if d[0] == "s" else obj.dest
            if lhs.is_local():
                out.append(d)
        return out

    def calls(self, pred=None, cleanup=False):
        """call terminators of the normal (non-unwind) blocks"""
        for b in self.blocks:
            if b.cleanup and not cleanup:
                continue
            t = b.term
            if t.kind == "call" and (pred is None or pred(t.callee)):
                yield b.idx, t

    def stmts(self, cleanup=False):
        """statements of the normal (non-unwind) blocks"""
        for b in self.blocks:
            if b.cleanup and not cleanup:
                continue
            for i, s in enumerate(b.stmts):
                yield b.idx, i, s

    def is_arg(self, local):
        return 1 <= local <= self.arg_count


class Body:
    def __init__(self, j, loader=None):
        self.id = j["id"]
        self.name = j["name"]
        self.sname = strip_generics(j["name"])
        self.kind = j["kind"]
        self.file = j["file"]
        self.line = j["line"]
        self.parent = j.get("parent")
        self.item_name = j.get("item_name")
        self.impl_self = j.get("impl_self")
        self.impl_self_adt = j.get("impl_self_adt")
        self.impl_trait = strip_generics(j.get("impl_trait"))
        self.impl_trait_ref = j.get("impl_trait_ref")
        self.impl = j.get("impl")
        self.trait_item = j.get("trait_item")
        self.in_trait = j.get("in_trait")
        self.derived = j.get("derived", False)
        self.from_expansion = j.get("from_expansion", False)
        self.inputs = j.get("inputs")
        self.output = j.get("output")
        self.vis = j.get("vis")
        self.asyncness = j.get("asyncness", False)
        # light summary (computed once at index time)
        self.sum_calls = j.get("sum_calls", ())      # callee names (resolved + declared), generics stripped
        self.sum_writes = j.get("sum_writes", ())    # (adt, field) written
        self.sum_aggs = j.get("sum_aggs", ())        # "adt::Variant" aggregates built
        self.sum_edges = j.get("sum_edges", ())      # call-graph successors (body ids)
        self.sum_fields = j.get("sum_fields", ())    # (adt, field) appearing in any place (read or write)
        self._j = j if "mir" in j else None
        self._loader = loader
        self._mir = None
        self._prom = None
        self.children = []  # closures / coroutines defined inside

    def _full(self):
        if self._j is None:
            self._j = self._loader(self.id)
        return self._j

    @property
    def mir(self):
        if self._mir is None:
            self._mir = Mir(self._full()["mir"])
        return self._mir

    @property
    def promoted(self):
        if self._prom is None:
            self._prom = [Mir(p) for p in self._full().get("promoted", [])]
        return self._prom

    def calls_any(self, *suffixes):
        for n in self.sum_calls:
            for s in suffixes:
                if path_endswith(n, s):
                    return True
        return False

    def writes_field(self, adt_suffix, field):
        for a, f in self.sum_writes:
            if f == field and (adt_suffix is None or path_endswith(a, adt_suffix)):
                return True
        return False

    def touches_field(self, adt_suffix, field):
        for a, f in self.sum_fields:
            if f == field and (adt_suffix is None or path_endswith(a, adt_suffix)):
                return True
        return False

    def builds(self, adt_suffix, variant=None):
        for a in self.sum_aggs:
            ad, v = a.rsplit("::", 1)
            if path_endswith(ad, adt_suffix) and (variant is None or v == variant):
                return True
        return False

    def is_fn_like(self):
        return self.kind in ("Fn", "AssocFn") or self.kind.startswith("Closure")

    def loc(self, line=None):
        return "%s:%s" % (self.file, line if line is not None else self.line)

    def self_short(self):
        return short_ty(self.impl_self) if self.impl_self else None

    def __repr__(self):
        return "<Body %s>" % self.sname


class Facts:
    def __init__(self, recs, loader=None):
        self.meta = {}
        self.bodies = {}
        self.adts = {}
        self.adts_by_name = {}
        self.impls = []
        for r in recs:
            k = r["rec"]
            if k == "meta":
                self.meta[r["crate"]] = r
            elif k == "body":
                b = Body(r, loader)
                self.bodies[b.id] = b
            elif k == "adt":
                self.adts[r["id"]] = r
                self.adts_by_name[r["name"]] = r
            elif k == "impl":
                self.impls.append(r)
        for b in self.bodies.values():
            p = self.bodies.get(b.parent)
            if p is not None:
                p.children.append(b)
        # trait item id -> [impl method ids]
        self.trait_impls = defaultdict(list)
        for im in self.impls:
            for (name, did, tid) in im["items"]:
                if tid:
                    self.trait_impls[tid].append(did)
        self._cg = None

    # ---- anchors
    def find_fns(self, self_ty=None, method=None, trait=None, free=None):
        out = []
        for b in self.bodies.values():
            if b.kind not in ("Fn", "AssocFn"):
                continue
            if free is not None:
                if b.kind == "Fn" and b.item_name == free:
                    out.append(b)
                continue
            if method is not None and b.item_name != method:
                continue
            if self_ty is not None and (b.impl_self is None or short_ty(b.impl_self) != self_ty):
                continue
            if trait is not None:
                if b.impl_trait is None or not path_endswith(b.impl_trait, trait):
                    continue
            elif trait is None and self_ty is not None and method is not None and False:
                pass
            out.append(b)
        return out

    def fn(self, self_ty=None, method=None, trait=None, free=None, inherent=False):
        c = self.find_fns(self_ty, method, trait, free)
        if inherent:
            c = [b for b in c if b.impl_trait is None]
        if len(c) != 1:
            raise AnchorError("anchor (%s, %s, trait=%s, free=%s) resolves to %d functions: %s" % (
                self_ty, method, trait, free, len(c), [b.sname for b in c][:6]))
        return c[0]

    def adt(self, short_name):
        c = [a for a in self.adts.values() if a["name"].split("::")[-1] == short_name]
        if len(c) != 1:
            raise AnchorError("ADT anchor %s resolves to %d types" % (short_name, len(c)))
        return c[0]

    def variant_index(self, adt_name_suffix, variant):
        for a in self.adts.values():
            if path_endswith(a["name"], adt_name_suffix):
                for i, v in enumerate(a["variants"]):
                    if v["name"] == variant:
                        return i, v.get("discr", i)
        raise AnchorError("variant %s::%s not found" % (adt_name_suffix, variant))

    def closure_of(self, body, ordinal=None):
        """closures / coroutine bodies directly inside body (in definition order)"""
        ch = sorted(body.children, key=lambda b: b.id)
        return ch if ordinal is None else ch[ordinal]

    def descendants(self, body):
        out = []
        st = [body]
        while st:
            b = st.pop()
            for c in b.children:
                out.append(c)
                st.append(c)
        return out

    def body_and_closures(self, body):
        return [body] + self.descendants(body)

    # ---- call graph
    def callees_of(self, body):
        """set of local body ids possibly called/created by this body (over-approximation)."""
        out = set()
        m = body.mir
        for bb, t in m.calls():
            c = t.callee
            if c.indirect:
                continue
            if c.res_id and c.res_id in self.bodies and c.res_kind in ("item", "closure_once_shim", "reify_shim", "vtable_shim", "fnptr_shim"):
                out.add(c.res_id)
            elif c.res_id and c.res_kind == "virtual":
                for d in self.trait_impls.get(c.res_id, []):
                    out.add(d)
                if c.res_id in self.bodies:
                    out.add(c.res_id)
            elif c.res_kind in ("unresolved", "unnormalizable", "error", None):
                if c.def_id in self.bodies:
                    out.add(c.def_id)  # provided method / generic fn
                for d in self.trait_impls.get(c.def_id, []):
                    out.add(d)
            if c.closure and c.closure in self.bodies:
                out.add(c.closure)
            # function items passed as arguments (callbacks)
            for a in t.args:
                if a.const is not None and a.const.get("fn") in self.bodies:
                    out.add(a.const["fn"])
        for _, _, s in m.stmts():
            if s.rv is not None and s.rv.kind == "aggregate" and s.rv.agg.get("k") in ("closure", "coroutine", "coroutine_closure"):
                d = s.rv.agg.get("def")
                if d in self.bodies:
                    out.add(d)
            if s.rv is not None:
                for o in s.rv.ops:
                    if o.const is not None and o.const.get("fn") in self.bodies:
                        out.add(o.const["fn"])
        # closures nested lexically are assumed created
        for c in body.children:
            if c.kind.startswith("Closure"):
                out.add(c.id)
        return out

    def callgraph(self):
        if self._cg is None:
            cg = {}
            for b in self.bodies.values():
                if b.kind in ("Fn", "AssocFn") or b.kind.startswith("Closure"):
                    cg[b.id] = set(b.sum_edges) if b.sum_edges is not None else self.callees_of(b)
            self._cg = cg
        return self._cg

    def reachable_fns(self, entry_ids, stop=lambda b: False):
        cg = self.callgraph()
        seen = {}
        q = deque()
        for e in entry_ids:
            if e not in seen:
                seen[e] = None
                q.append(e)
        while q:
            x = q.popleft()
            if stop(self.bodies[x]):
                continue
            for y in cg.get(x, ()):
                if y not in seen:
                    seen[y] = x
                    q.append(y)
        return seen  # id -> predecessor id (for path reporting)

    def call_path(self, seen, target):
        path = [target]
        while seen.get(path[-1]) is not None:
            path.append(seen[path[-1]])
        path.reverse()
        return [self.bodies[p].sname for p in path]

    def callers_of(self, target_id):
        cg = self.callgraph()
        return [self.bodies[x] for x, ys in cg.items() if target_id in ys]


def _summarise(r):
    """light per-body summary from the raw JSON (no object construction)"""
    calls, writes, aggs = set(), set(), set()

    def scan(mir):
        for b in mir["blocks"]:
            for st in b["s"]:
                if st["k"] == "assign":
                    pr = st["lhs"][1]
                    if pr and pr[-1][0] == "field":
                        writes.add((pr[-1][2], pr[-1][4]))
                    rv = st["rv"]
                    if rv[0] == "aggregate" and rv[1].get("k") == "adt":
                        aggs.add(rv[1]["adt"] + "::" + rv[1]["variant"])
            t = b.get("t")
            if t and t["k"] in ("call", "tailcall"):
                c = t["callee"]
                for k in ("name", "res_name"):
                    if c.get(k):
                        calls.add(strip_generics(c[k]))
                if c.get("trait") and c.get("name"):
                    calls.add(strip_generics(c["trait"]) + "::" + strip_generics(c["name"]).split("::")[-1])
                if c.get("impl_self") and c.get("name"):
                    calls.add(strip_generics(re.sub(r"^&(?:'\w+ )?(?:mut )?", "", c["impl_self"])) + "::" + strip_generics(c["name"]).split("::")[-1])
    fields = set()

    def walk(x):
        if isinstance(x, list):
            if len(x) == 6 and x[0] == "field" and isinstance(x[2], str):
                fields.add((x[2], x[4]))
                return
            for y in x:
                walk(y)
        elif isinstance(x, dict):
            for y in x.values():
                walk(y)
    scan(r["mir"])
    walk(r["mir"]["blocks"])
    for p in r.get("promoted", []):
        scan(p)
    return sorted(calls), sorted(writes), sorted(aggs), sorted(fields)


def _build_index(path):
    """Parse the facts file once; write <path>.idx (pickle) with headers + summaries + offsets."""
    import gc
    gc.disable()
    try:
        recs = []
        offsets = {}
        full = []
        with open(path, "rb") as f:
            pos = 0
            for raw in f:
                ln = len(raw)
                r = json.loads(raw)
                if r["rec"] == "body":
                    if r["kind"].startswith("Static") and r.get("from_expansion"):
                        pos += ln
                        continue
                    offsets[r["id"]] = (pos, ln)
                    full.append(r)
                else:
                    recs.append(r)
                pos += ln
        tmpf = Facts(recs + full)
        heads = []
        for r in full:
            b = tmpf.bodies[r["id"]]
            edges = sorted(tmpf.callees_of(b)) if b.is_fn_like() else []
            c, w, a, fl = _summarise(r)
            h = {k: v for k, v in r.items() if k not in ("mir", "promoted")}
            h["sum_calls"], h["sum_writes"], h["sum_aggs"], h["sum_edges"] = c, w, a, edges
            h["sum_fields"] = fl
            heads.append(h)
        idx = {"recs": recs + heads, "offsets": offsets, "size": os.path.getsize(path), "ver": INDEX_VERSION}
        tmp = path + ".idx.tmp%d" % os.getpid()
        with open(tmp, "wb") as f:
            pickle.dump(idx, f, protocol=pickle.HIGHEST_PROTOCOL)
        os.replace(tmp, path + ".idx")
        return idx
    finally:
        gc.enable()


def load_facts(paths, cache=True):
    import gc
    recs = []
    offs = {}
    for p in paths:
        idx = None
        ip = p + ".idx"
        if os.path.exists(ip) and os.path.getmtime(ip) >= os.path.getmtime(p):
            try:
                gc.disable()
                with open(ip, "rb") as f:
                    idx = pickle.load(f)
                if idx.get("size") != os.path.getsize(p) or idx.get("ver") != INDEX_VERSION:
                    idx = None
            except Exception:
                idx = None
            finally:
                gc.enable()
        if idx is None:
            idx = _build_index(p)
        recs.extend(idx["recs"])
        for k, v in idx["offsets"].items():
            offs[k] = (p, v[0], v[1])

    def loader(bid):
        p, pos, ln = offs[bid]
        with open(p, "rb") as f:
            f.seek(pos)
            return json.loads(f.read(ln))
    return Facts(recs, loader)
