"""Virtual inlining of functions that did not exist on the reference tree.

The rules anchor on the functions of /repo as they were when the rules were confirmed (tables/function_inventory.json lists
them). When a later change moves some statements of such a function into a new helper ("extract function"), the statements
are still executed at the same point; to let every path / dominance / provenance rule see them there, a call to an in-crate
function that is not in the inventory is replaced by the callee's body (a copy with renumbered locals and blocks). Inlining
preserves behaviour, so a rule that holds on the inlined body holds on the real one and vice versa. Async functions,
recursive helpers and calls through trait objects are left alone.

Everything is done on the JSON form of the extracted MIR (see engine/mirfacts/src/main.rs for the schema).
"""
import copy

from .facts import Mir, strip_generics

MAX_ROUNDS = 4
MAX_CALLEE_BLOCKS = 400


def _place(pj, lm):
    return [lm(pj[0]), [([p[0], lm(p[1])] + list(p[2:])) if p and p[0] == "index" else p for p in pj[1]]]


def _const(cj, prom_off):
    if isinstance(cj, dict) and "promoted" in cj and prom_off:
        cj = dict(cj)
        cj["promoted"] = cj["promoted"] + prom_off
    return cj


def _operand(oj, lm, prom_off):
    if oj[0] in ("copy", "move"):
        return [oj[0], _place(oj[1], lm)]
    if oj[0] == "const":
        return ["const", _const(oj[1], prom_off)]
    return oj


def _rvalue(rj, lm, prom_off):
    k = rj[0]
    if k in ("use", "repeat"):
        return [k, _operand(rj[1], lm, prom_off)] + list(rj[2:])
    if k == "ref":
        return [k, rj[1], _place(rj[2], lm)]
    if k == "rawptr":
        return [k, _place(rj[1], lm)] + list(rj[2:])
    if k == "cast":
        return [k, rj[1], _operand(rj[2], lm, prom_off), rj[3], rj[4]]
    if k == "binop":
        return [k, rj[1], _operand(rj[2], lm, prom_off), _operand(rj[3], lm, prom_off), rj[4]]
    if k == "unop":
        return [k, rj[1], _operand(rj[2], lm, prom_off)]
    if k == "discr":
        return [k, _place(rj[1], lm), rj[2]]
    if k == "aggregate":
        return [k, rj[1], [_operand(o, lm, prom_off) for o in rj[2]]]
    return rj


def _stmt(sj, lm, prom_off):
    s = dict(sj)
    if "lhs" in s:
        s["lhs"] = _place(s["lhs"], lm)
    if "rv" in s:
        s["rv"] = _rvalue(s["rv"], lm, prom_off)
    return s


def _term(tj, lm, bm, prom_off):
    if not tj:
        return tj
    t = dict(tj)
    for key in ("target", "unwind", "otherwise", "drop", "imaginary"):
        if t.get(key) is not None and isinstance(t[key], int):
            t[key] = bm(t[key])
    if "arms" in t:
        t["arms"] = [[a[0], bm(a[1])] for a in t["arms"]]
    for key in ("discr", "cond", "value"):
        if key in t:
            t[key] = _operand(t[key], lm, prom_off)
    if "args" in t:
        t["args"] = [_operand(a, lm, prom_off) for a in t["args"]]
    if "ops" in t:
        t["ops"] = [_operand(a, lm, prom_off) for a in t["ops"]]
    for key in ("dest", "place"):
        if key in t:
            t[key] = _place(t[key], lm)
    if "callee" in t and isinstance(t["callee"], dict) and "op" in t["callee"]:
        c = dict(t["callee"])
        c["op"] = _operand(c["op"], lm, prom_off)
        t["callee"] = c
    return t


def inline_call(fj, bb, hj, prom_off):
    """fj: caller MIR json, bb: index of the block whose terminator calls the helper, hj: helper MIR json.
    Returns the new caller MIR json (the inputs are not modified)."""
    f = copy.deepcopy(fj)
    call = f["blocks"][bb]["t"]
    nloc = len(f["locals"])
    nblk = len(f["blocks"])
    hlocals = hj["locals"]
    lm = lambda l: l + nloc                      # helper local i -> caller local nloc + i   (helper _0 -> nloc)
    # block layout: [nblk] prologue, [nblk+1 ..] helper blocks, [last] landing
    first = nblk + 1
    landing = first + len(hj["blocks"])
    bm = lambda b: b + first
    f["locals"] = f["locals"] + list(hlocals)
    f["names"] = f["names"] + [[n, _place(p, lm)] for n, p in hj["names"]]
    line = call.get("line")
    # prologue: parameters receive the arguments
    pro = []
    for i, a in enumerate(call["args"]):
        if i + 1 < len(hlocals) and i < hj["arg_count"]:
            pro.append({"k": "assign", "lhs": [lm(i + 1), []], "rv": ["use", a], "line": line, "exp": None})
    f["blocks"].append({"s": pro, "t": {"k": "goto", "target": bm(0), "line": line, "exp": None}, "cleanup": False})
    unwind_to = call.get("unwind")
    for hb in hj["blocks"]:
        nb = {"s": [_stmt(s, lm, prom_off) for s in hb["s"]], "t": _term(hb.get("t"), lm, bm, prom_off), "cleanup": bool(hb.get("cleanup"))}
        t = nb["t"] or {}
        if t.get("k") == "return":
            nb["t"] = {"k": "goto", "target": landing, "line": t.get("line"), "exp": t.get("exp")}
        elif t.get("k") == "resume" and unwind_to is not None:
            nb["t"] = {"k": "goto", "target": unwind_to, "line": t.get("line"), "exp": t.get("exp")}
        f["blocks"].append(nb)
    land = []
    if "dest" in call:
        land.append({"k": "assign", "lhs": call["dest"], "rv": ["use", ["move", [lm(0), []]]], "line": line, "exp": None})
    if call.get("target") is not None:
        lt = {"k": "goto", "target": call["target"], "line": line, "exp": None}
    else:
        lt = {"k": "unreachable", "line": line, "exp": None}
    f["blocks"].append({"s": land, "t": lt, "cleanup": False})
    f["blocks"][bb]["t"] = {"k": "goto", "target": nblk, "line": line, "exp": call.get("exp")}
    return f


def load_inventory(path):
    import json
    try:
        return set(json.load(open(path))["functions"])
    except OSError:
        return None


def _tail(b):
    """name of a function without its module path: `Type::method` for associated functions, the bare name for free / nested ones"""
    parts = b.sname.split("::")
    if b.kind == "AssocFn" and len(parts) >= 2:
        return "::".join(parts[-2:])
    return parts[-1]


def _known_tails(inventory):
    """tails that identify exactly one function of the inventory (moving a function to another module keeps it known)"""
    from collections import Counter
    c = Counter()
    for n in inventory:
        parts = n.split("::")
        c[parts[-1]] += 1
        if len(parts) >= 2:
            c["::".join(parts[-2:])] += 1
    return {k for k, v in c.items() if v == 1}


def _is_new(b, inventory, tails):
    if b.sname in inventory:
        return False
    # moved (nested fn -> module level, other file): the same name under another path, unique on the reference tree
    return _tail(b) not in tails


def _recursive(fx, b, depth=6):
    seen, st = set(), [(e, 0) for e in (b.sum_edges or ())]
    while st:
        x, d = st.pop()
        if x == b.id:
            return True
        if x in seen or d >= depth or x not in fx.bodies:
            continue
        seen.add(x)
        st.extend((e, d + 1) for e in (fx.bodies[x].sum_edges or ()))
    return False


def apply(fx, inventory):
    """Inline calls to in-crate functions whose name is not in `inventory` into their callers; returns the list of helper names.
    Bodies that were inlined everywhere they are called are removed from fx.bodies (their closures are re-parented)."""
    fx.new_fn_ids = set()
    if not inventory:
        return []
    # functions that are new but cannot be inlined (async fns: their code lives in a coroutine body) are remembered so that
    # rules can look through calls to them (FnCtx.calls_deep)
    tails = _known_tails(inventory)
    for b in fx.bodies.values():
        if b.kind in ("Fn", "AssocFn") and _is_new(b, inventory, tails) and "::tests::" not in b.sname and not b.derived:
            fx.new_fn_ids.add(b.id)
    new = {}
    for b in fx.bodies.values():
        if b.kind in ("Fn", "AssocFn") and _is_new(b, inventory, tails) and "::tests::" not in b.sname and not b.asyncness and not b.derived \
                and b.impl_trait is None and not _recursive(fx, b):
            new[b.id] = b
    if not new:
        return []
    done = set()
    remaining_calls = {h: 0 for h in new}
    for rnd in range(MAX_ROUNDS):
        changed = False
        for b in list(fx.bodies.values()):
            if b.id in new and rnd == 0:
                pass  # helpers may call other new helpers: handled like any caller
            if not any(e in new for e in (b.sum_edges or ())):
                continue
            try:
                fj = b._full()
            except Exception:
                continue
            mj = b.__dict__.get("_inl_json") or fj["mir"]
            prom = list(b.__dict__.get("_inl_prom") or fj.get("promoted", []))
            progressed = True
            guard = 0
            while progressed and guard < 40:
                progressed = False
                guard += 1
                for bi, blk in enumerate(mj["blocks"]):
                    t = blk.get("t") or {}
                    if t.get("k") != "call" or blk.get("cleanup"):
                        continue
                    c = t.get("callee") or {}
                    hid = c.get("res")
                    if hid not in new or hid == b.id or c.get("indirect") or c.get("res_kind") not in (None, "item"):
                        continue
                    h = new[hid]
                    hj = h.__dict__.get("_inl_json") or h._full()["mir"]
                    if len(hj["blocks"]) > MAX_CALLEE_BLOCKS or any((x.get("t") or {}).get("k") in ("yield", "coroutine_drop", "tailcall") for x in hj["blocks"]):
                        continue
                    hprom = list(h.__dict__.get("_inl_prom") or h._full().get("promoted", []))
                    try:
                        mj2 = inline_call(mj, bi, hj, len(prom))
                        Mir(mj2)          # must parse
                    except Exception:     # an unexpected MIR shape: leave this call alone
                        new.pop(hid, None)
                        continue
                    mj = mj2
                    prom = prom + hprom
                    done.add(hid)
                    progressed = changed = True
                    # summaries: the caller now does what the helper does
                    b.sum_calls = tuple(sorted(set(b.sum_calls or ()) | set(h.sum_calls or ())))
                    b.sum_writes = tuple(sorted({tuple(x) for x in (b.sum_writes or ())} | {tuple(x) for x in (h.sum_writes or ())}))
                    b.sum_aggs = tuple(sorted(set(b.sum_aggs or ()) | set(h.sum_aggs or ())))
                    b.sum_fields = tuple(sorted({tuple(x) for x in (b.sum_fields or ())} | {tuple(x) for x in (h.sum_fields or ())}))
                    b.sum_edges = tuple(sorted((set(b.sum_edges or ()) | set(h.sum_edges or ())) - {hid}))
                    for ch in h.children:
                        if ch not in b.children:
                            b.children.append(ch)
                    break
            if mj is not (b.__dict__.get("_inl_json") or fj["mir"]):
                b.__dict__["_inl_json"] = mj
                b.__dict__["_inl_prom"] = prom
                b._mir = Mir(mj)
                b._prom = [Mir(p) for p in prom]
        if not changed:
            break
    # helpers that are no longer called from anywhere disappear from the program the rules look at
    still = set()
    for b in fx.bodies.values():
        for e in (b.sum_edges or ()):
            if e in new and b.id != e:
                still.add(e)
    removed = []
    for hid in sorted(done):
        if hid in still:
            continue
        h = fx.bodies.pop(hid, None)
        if h is None:
            continue
        removed.append(h.sname)
        for ch in h.children:
            # closures defined in the helper now belong to (one of) the callers
            for b in fx.bodies.values():
                if ch in b.children:
                    ch.parent = b.id
                    break
    for attr in ("_by_name", "_fn_index"):
        if attr in fx.__dict__:
            fx.__dict__.pop(attr, None)
    return sorted(new[h].sname for h in done)
