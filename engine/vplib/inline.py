"""Virtual inlining of functions that did not exist on the reference tree.

The rules anchor on the functions of /repo as they were when the rules were confirmed (tables/function_inventory.json lists
them). When a later change moves some statements of such a function into a new helper ("extract function"), the statements
are still executed at the same point; to let every path / dominance / provenance rule see them there, a call to an in-crate
function that is not in the inventory is replaced by the callee's body (a copy with renumbered locals and blocks). Inlining
preserves behaviour, so a rule that holds on the inlined body holds on the real one and vice versa. Async functions,
recursive helpers and calls through trait objects are left alone.

Everything is done on the JSON form of the extracted MIR (see engine/mirfacts/src/main.rs for the schema).
"""
import copy

from .facts import Mir, strip_generics

MAX_ROUNDS = 4
MAX_CALLEE_BLOCKS = 400


_CAPS = None   # while a closure body is spliced: operands the closure value was built from (captured variables)


def _place(pj, lm):
    proj = [([p[0], lm(p[1])] + list(p[2:])) if p and p[0] == "index" else p for p in pj[1]]
    if _CAPS is not None and pj[0] == 1 and len(proj) >= 2 and proj[0][0] == "deref" and proj[1][0] == "field":
        proj = proj[1:]          # closure taken by reference: `(*_1).i`
    if _CAPS is not None and pj[0] == 1 and proj and proj[0][0] == "field" and isinstance(proj[0][1], int) and proj[0][1] < len(_CAPS):
        cap = _CAPS[proj[0][1]]
        if cap[0] in ("copy", "move"):
            # `_1.i` of the closure body is the i-th captured operand of the caller
            return [cap[1][0], list(cap[1][1]) + proj[1:]]
    return [lm(pj[0]), proj]


def _const(cj, prom_off):
    if isinstance(cj, dict) and "promoted" in cj and prom_off:
        cj = dict(cj)
        cj["promoted"] = cj["promoted"] + prom_off
    return cj


def _operand(oj, lm, prom_off):
    if oj[0] in ("copy", "move"):
        return [oj[0], _place(oj[1], lm)]
    if oj[0] == "const":
        return ["const", _const(oj[1], prom_off)]
    return oj


def _rvalue(rj, lm, prom_off):
    k = rj[0]
    if k in ("use", "repeat"):
        return [k, _operand(rj[1], lm, prom_off)] + list(rj[2:])
    if k == "ref":
        return [k, rj[1], _place(rj[2], lm)]
    if k == "rawptr":
        return [k, _place(rj[1], lm)] + list(rj[2:])
    if k == "cast":
        return [k, rj[1], _operand(rj[2], lm, prom_off), rj[3], rj[4]]
    if k == "binop":
        return [k, rj[1], _operand(rj[2], lm, prom_off), _operand(rj[3], lm, prom_off), rj[4]]
    if k == "unop":
        return [k, rj[1], _operand(rj[2], lm, prom_off)]
    if k == "discr":
        return [k, _place(rj[1], lm), rj[2]]
    if k == "aggregate":
        return [k, rj[1], [_operand(o, lm, prom_off) for o in rj[2]]]
    return rj


def _stmt(sj, lm, prom_off):
    s = dict(sj)
    if "lhs" in s:
        s["lhs"] = _place(s["lhs"], lm)
    if "rv" in s:
        s["rv"] = _rvalue(s["rv"], lm, prom_off)
    return s


def _term(tj, lm, bm, prom_off):
    if not tj:
        return tj
    t = dict(tj)
    for key in ("target", "unwind", "otherwise", "drop", "imaginary"):
        if t.get(key) is not None and isinstance(t[key], int):
            t[key] = bm(t[key])
    if "arms" in t:
        t["arms"] = [[a[0], bm(a[1])] for a in t["arms"]]
    for key in ("discr", "cond", "value"):
        if key in t:
            t[key] = _operand(t[key], lm, prom_off)
    if "args" in t:
        t["args"] = [_operand(a, lm, prom_off) for a in t["args"]]
    if "ops" in t:
        t["ops"] = [_operand(a, lm, prom_off) for a in t["ops"]]
    for key in ("dest", "place"):
        if key in t:
            t[key] = _place(t[key], lm)
    if "callee" in t and isinstance(t["callee"], dict) and "op" in t["callee"]:
        c = dict(t["callee"])
        c["op"] = _operand(c["op"], lm, prom_off)
        t["callee"] = c
    return t


def inline_call(fj, bb, hj, prom_off):
    """fj: caller MIR json, bb: index of the block whose terminator calls the helper, hj: helper MIR json.
    Returns the new caller MIR json (the inputs are not modified)."""
    f = copy.deepcopy(fj)
    call = f["blocks"][bb]["t"]
    nloc = len(f["locals"])
    nblk = len(f["blocks"])
    hlocals = hj["locals"]
    lm = lambda l: l + nloc                      # helper local i -> caller local nloc + i   (helper _0 -> nloc)
    # block layout: [nblk] prologue, [nblk+1 ..] helper blocks, [last] landing
    first = nblk + 1
    landing = first + len(hj["blocks"])
    bm = lambda b: b + first
    f["locals"] = f["locals"] + list(hlocals)
    f["names"] = f["names"] + [[n, _place(p, lm)] for n, p in hj["names"]]
    line = call.get("line")
    # prologue: parameters receive the arguments
    pro = []
    for i, a in enumerate(call["args"]):
        if i + 1 < len(hlocals) and i < hj["arg_count"]:
            pro.append({"k": "assign", "lhs": [lm(i + 1), []], "rv": ["use", a], "line": line, "exp": None})
    f["blocks"].append({"s": pro, "t": {"k": "goto", "target": bm(0), "line": line, "exp": None}, "cleanup": False})
    unwind_to = call.get("unwind")
    for hb in hj["blocks"]:
        nb = {"s": [_stmt(s, lm, prom_off) for s in hb["s"]], "t": _term(hb.get("t"), lm, bm, prom_off), "cleanup": bool(hb.get("cleanup"))}
        t = nb["t"] or {}
        if t.get("k") == "return":
            nb["t"] = {"k": "goto", "target": landing, "line": t.get("line"), "exp": t.get("exp")}
        elif t.get("k") == "resume" and unwind_to is not None:
            nb["t"] = {"k": "goto", "target": unwind_to, "line": t.get("line"), "exp": t.get("exp")}
        f["blocks"].append(nb)
    land = []
    if "dest" in call:
        land.append({"k": "assign", "lhs": call["dest"], "rv": ["use", ["move", [lm(0), []]]], "line": line, "exp": None})
    if call.get("target") is not None:
        lt = {"k": "goto", "target": call["target"], "line": line, "exp": None}
    else:
        lt = {"k": "unreachable", "line": line, "exp": None}
    f["blocks"].append({"s": land, "t": lt, "cleanup": False})
    f["blocks"][bb]["t"] = {"k": "goto", "target": nblk, "line": line, "exp": call.get("exp")}
    return f


def load_inventory(path):
    import json
    try:
        return set(json.load(open(path))["functions"])
    except OSError:
        return None


def _tail(b):
    """name of a function without its module path: `Type::method` for associated functions, the bare name for free / nested ones"""
    parts = b.sname.split("::")
    if b.kind == "AssocFn" and len(parts) >= 2:
        return "::".join(parts[-2:])
    return parts[-1]


def _known_tails(inventory):
    """tails that identify exactly one function of the inventory (moving a function to another module keeps it known)"""
    from collections import Counter
    c = Counter()
    for n in inventory:
        parts = n.split("::")
        c[parts[-1]] += 1
        if len(parts) >= 2:
            c["::".join(parts[-2:])] += 1
    return {k for k, v in c.items() if v == 1}


def _is_new(b, inventory, tails):
    if b.sname in inventory:
        return False
    # moved (nested fn -> module level, other file): the same name under another path, unique on the reference tree
    return _tail(b) not in tails


def _recursive(fx, b, depth=6):
    seen, st = set(), [(e, 0) for e in (b.sum_edges or ())]
    while st:
        x, d = st.pop()
        if x == b.id:
            return True
        if x in seen or d >= depth or x not in fx.bodies:
            continue
        seen.add(x)
        st.extend((e, d + 1) for e in (fx.bodies[x].sum_edges or ()))
    return False


def apply(fx, inventory):
    """Inline calls to in-crate functions whose name is not in `inventory` into their callers; returns the list of helper names.
    Bodies that were inlined everywhere they are called are removed from fx.bodies (their closures are re-parented)."""
    fx.new_fn_ids = set()
    if not inventory:
        return []
    # functions that are new but cannot be inlined (async fns: their code lives in a coroutine body) are remembered so that
    # rules can look through calls to them (FnCtx.calls_deep)
    tails = _known_tails(inventory)
    for b in fx.bodies.values():
        if b.kind in ("Fn", "AssocFn") and _is_new(b, inventory, tails) and "::tests::" not in b.sname and not b.derived:
            fx.new_fn_ids.add(b.id)
    new = {}
    for b in fx.bodies.values():
        if b.kind in ("Fn", "AssocFn") and _is_new(b, inventory, tails) and "::tests::" not in b.sname and not b.asyncness and not b.derived \
                and b.impl_trait is None and not _recursive(fx, b):
            new[b.id] = b
    if not new:
        return []
    done = set()
    remaining_calls = {h: 0 for h in new}
    for rnd in range(MAX_ROUNDS):
        changed = False
        for b in list(fx.bodies.values()):
            if b.id in new and rnd == 0:
                pass  # helpers may call other new helpers: handled like any caller
            if not any(e in new for e in (b.sum_edges or ())):
                continue
            try:
                fj = b._full()
            except Exception:
                continue
            mj = b.__dict__.get("_inl_json") or fj["mir"]
            prom = list(b.__dict__.get("_inl_prom") or fj.get("promoted", []))
            progressed = True
            guard = 0
            while progressed and guard < 40:
                progressed = False
                guard += 1
                for bi, blk in enumerate(mj["blocks"]):
                    t = blk.get("t") or {}
                    if t.get("k") != "call" or blk.get("cleanup"):
                        continue
                    c = t.get("callee") or {}
                    hid = c.get("res")
                    if hid not in new or hid == b.id or c.get("indirect") or c.get("res_kind") not in (None, "item"):
                        continue
                    h = new[hid]
                    hj = h.__dict__.get("_inl_json") or h._full()["mir"]
                    if len(hj["blocks"]) > MAX_CALLEE_BLOCKS or any((x.get("t") or {}).get("k") in ("yield", "coroutine_drop", "tailcall") for x in hj["blocks"]):
                        continue
                    hprom = list(h.__dict__.get("_inl_prom") or h._full().get("promoted", []))
                    try:
                        mj2 = inline_call(mj, bi, hj, len(prom))
                        Mir(mj2)          # must parse
                    except Exception:     # an unexpected MIR shape: leave this call alone
                        new.pop(hid, None)
                        continue
                    mj = mj2
                    prom = prom + hprom
                    done.add(hid)
                    progressed = changed = True
                    # summaries: the caller now does what the helper does
                    b.sum_calls = tuple(sorted(set(b.sum_calls or ()) | set(h.sum_calls or ())))
                    b.sum_writes = tuple(sorted({tuple(x) for x in (b.sum_writes or ())} | {tuple(x) for x in (h.sum_writes or ())}))
                    b.sum_aggs = tuple(sorted(set(b.sum_aggs or ()) | set(h.sum_aggs or ())))
                    b.sum_fields = tuple(sorted({tuple(x) for x in (b.sum_fields or ())} | {tuple(x) for x in (h.sum_fields or ())}))
                    b.sum_edges = tuple(sorted((set(b.sum_edges or ()) | set(h.sum_edges or ())) - {hid}))
                    for ch in h.children:
                        if ch not in b.children:
                            b.children.append(ch)
                    break
            if mj is not (b.__dict__.get("_inl_json") or fj["mir"]):
                b.__dict__["_inl_json"] = mj
                b.__dict__["_inl_prom"] = prom
                b._mir = Mir(mj)
                b._prom = [Mir(p) for p in prom]
        if not changed:
            break
    # helpers that are no longer called from anywhere disappear from the program the rules look at
    still = set()
    for b in fx.bodies.values():
        for e in (b.sum_edges or ()):
            if e in new and b.id != e:
                still.add(e)
    removed = []
    for hid in sorted(done):
        if hid in still:
            continue
        h = fx.bodies.pop(hid, None)
        if h is None:
            continue
        removed.append(h.sname)
        for ch in h.children:
            # closures defined in the helper now belong to (one of) the callers
            for b in fx.bodies.values():
                if ch in b.children:
                    ch.parent = b.id
                    break
    for attr in ("_by_name", "_fn_index"):
        if attr in fx.__dict__:
            fx.__dict__.pop(attr, None)
    return sorted(new[h].sname for h in done)


# ---------------------------------------------------------------------------------------------------------------------
# Option / Result combinators whose closure decides a verdict.
#
# `opt.is_some_and(|x| c(x))` is `match opt { Some(x) => c(x), None => false }`: the comparison `c` is a guard of the caller
# exactly as it would be in an `if let`. The call is replaced by that match, with the closure body spliced in (its captured
# variables `_1.i` become the caller's operands the closure value was built from), so path / dominance / guard rules see the
# comparison where it is evaluated. Handled: Option::{is_some_and, is_none_or, map_or, filter}, Result::{is_ok_and, is_err_and}.
# The rewrite preserves behaviour (it is the definition of these functions in core), so a rule holds on the rewritten body
# exactly when it holds on the original.

_COMBINATORS = {
    # def path suffix: (adt, variant evaluated by the closure, its index, what the other variant gives)
    "option::{impl#0}::is_some_and": ("std::option::Option", "Some", 1, ("bool", 0)),
    "option::{impl#0}::is_none_or": ("std::option::Option", "Some", 1, ("bool", 1)),
    "option::{impl#0}::map_or": ("std::option::Option", "Some", 1, ("arg", 1)),
    "option::{impl#0}::filter": ("std::option::Option", "Some", 1, ("filter", None)),
    "result::{impl#0}::is_ok_and": ("std::result::Result", "Ok", 0, ("bool", 0)),
    "result::{impl#0}::is_err_and": ("std::result::Result", "Err", 1, ("bool", 0)),
}


def _combinator_spec(callee):
    d = (callee or {}).get("def") or ""
    for k, v in _COMBINATORS.items():
        if d.endswith(k) and d.startswith("core::"):
            return k.split("::")[-1], v
    return None, None


def _closure_value(mj, local):
    """(closure def name, captured operands) when `local` is assigned exactly once, by a closure aggregate"""
    found = None
    n = 0
    for blk in mj["blocks"]:
        for s in blk["s"]:
            if s.get("k") == "assign" and s["lhs"][0] == local and not s["lhs"][1]:
                n += 1
                rv = s["rv"]
                if rv[0] == "aggregate" and rv[1].get("k") == "closure":
                    found = (rv[1].get("def"), rv[2])
        t = blk.get("t") or {}
        if t.get("k") == "call" and t.get("dest") and t["dest"][0] == local and not t["dest"][1]:
            n += 1
    return found if n == 1 else None


def _splice(f, hj, args, dest, target, unwind_to, line, prom_off, caps=None):
    """append a copy of hj's blocks to f (in place): a prologue block assigns `args` to the parameters, every `return` goes to
    a landing block that moves the result into `dest` and continues at `target`. Returns the prologue block index."""
    global _CAPS
    nloc = len(f["locals"])
    nblk = len(f["blocks"])
    hlocals = hj["locals"]
    # the closure's return place *is* the destination (when that is a plain local): every assignment to the result is then an
    # assignment to the caller's variable, and a result decided on several paths stays one level of definitions
    direct = not dest[1]
    lm = (lambda l: dest[0] if l == 0 else l + nloc) if direct else (lambda l: l + nloc)
    first = nblk + 1
    landing = first + len(hj["blocks"])
    bm = lambda b: b + first
    f["locals"] = f["locals"] + list(hlocals)
    _CAPS = caps
    try:
        f["names"] = f["names"] + [[n, _place(p, lm)] for n, p in hj["names"]]
        pro = []
        for i, a in enumerate(args):
            if i + 1 < len(hlocals) and i < hj["arg_count"]:
                pro.append({"k": "assign", "lhs": [lm(i + 1), []], "rv": ["use", a], "line": line, "exp": None})
        f["blocks"].append({"s": pro, "t": {"k": "goto", "target": bm(0), "line": line, "exp": None}, "cleanup": False})
        for hb in hj["blocks"]:
            nb = {"s": [_stmt(s, lm, prom_off) for s in hb["s"]], "t": _term(hb.get("t"), lm, bm, prom_off), "cleanup": bool(hb.get("cleanup"))}
            t = nb["t"] or {}
            if t.get("k") == "return":
                nb["t"] = {"k": "goto", "target": landing, "line": t.get("line"), "exp": t.get("exp")}
            elif t.get("k") == "resume" and unwind_to is not None:
                nb["t"] = {"k": "goto", "target": unwind_to, "line": t.get("line"), "exp": t.get("exp")}
            f["blocks"].append(nb)
    finally:
        _CAPS = None
    land = [] if direct else [{"k": "assign", "lhs": dest, "rv": ["use", ["move", [lm(0), []]]], "line": line, "exp": None}]
    f["blocks"].append({"s": land, "t": {"k": "goto", "target": target, "line": line, "exp": None}, "cleanup": False})
    return nblk


def expand_combinator(fj, bb, name, spec, kj, caps, prom_off):
    """fj: caller MIR json; block bb ends in the combinator call; kj: the closure's MIR json. Returns the new caller json."""
    adt, variant, vidx, other = spec
    f = copy.deepcopy(fj)
    call = f["blocks"][bb]["t"]
    line = call.get("line")
    args = call["args"]
    opt = args[0]
    clos = args[-1]
    if opt[0] not in ("copy", "move") or call.get("target") is None or "dest" not in call:
        raise ValueError("shape")
    dest, target, unwind_to = call["dest"], call["target"], call.get("unwind")
    opt_place = opt[1]
    if opt_place[1]:
        raise ValueError("projected receiver")
    opt_ty = f["locals"][opt_place[0]]
    ref_arg = name == "filter"
    # the payload type is the closure's parameter type (behind a reference for `filter`)
    ptys = kj["locals"]
    if kj["arg_count"] < 2 or len(ptys) < 3:
        raise ValueError("closure arity")
    pty = ptys[2]
    if ref_arg:
        pty = pty[1:].lstrip() if pty.startswith("&") else pty
    payload = [opt_place[0], [["downcast", variant, vidx], ["field", 0, adt, variant, "0", pty]]]
    d = len(f["locals"])
    f["locals"] = f["locals"] + ["isize"]
    f["blocks"][bb]["s"] = list(f["blocks"][bb]["s"]) + [{"k": "assign", "lhs": [d, []], "rv": ["discr", opt_place, opt_ty], "line": line, "exp": None}]

    def block(stmts, term):
        f["blocks"].append({"s": stmts, "t": term, "cleanup": False})
        return len(f["blocks"]) - 1

    def goto(b):
        return {"k": "goto", "target": b, "line": line, "exp": None}

    def assign(lhs, rv):
        return {"k": "assign", "lhs": lhs, "rv": rv, "line": line, "exp": None}

    if other[0] == "bool":
        other_blk = block([assign(dest, ["use", ["const", {"ty": "bool", "v": other[1]}]])], goto(target))
        some_blk = _splice(f, kj, [clos, ["move", payload]], dest, target, unwind_to, line, prom_off, caps)
    elif other[0] == "arg":
        other_blk = block([assign(dest, ["use", args[other[1]]])], goto(target))
        some_blk = _splice(f, kj, [clos, ["move", payload]], dest, target, unwind_to, line, prom_off, caps)
    else:  # filter: Some(x) if pred(&x) => Some(x), _ => None
        none_rv = ["aggregate", {"k": "adt", "adt": adt, "variant": "None", "vidx": 0, "fields": []}, []]
        other_blk = block([assign(dest, none_rv)], goto(target))
        keep_rv = ["aggregate", {"k": "adt", "adt": adt, "variant": "Some", "vidx": 1, "fields": ["0"]}, [["move", payload]]]
        keep_blk = block([assign(dest, keep_rv)], goto(target))
        r = len(f["locals"])
        f["locals"] = f["locals"] + ["&" + pty, "bool"]
        test_blk = block([], {"k": "switch", "discr": ["copy", [r + 1, []]], "discr_ty": "bool", "arms": [[0, other_blk]], "otherwise": keep_blk, "line": line, "exp": None})
        pro = _splice(f, kj, [clos, ["move", [r, []]]], [r + 1, []], test_blk, unwind_to, line, prom_off, caps)
        some_blk = block([assign([r, []], ["ref", "shared", payload])], goto(pro))
    f["blocks"][bb]["t"] = {"k": "switch", "discr": ["move", [d, []]], "discr_ty": "isize", "arms": [[vidx, some_blk]], "otherwise": other_blk,
                            "line": line, "exp": call.get("exp")}
    return f


def _depth(fx, b):
    n = 0
    while getattr(b, "parent", None) and b.parent in fx.bodies and n < 20:
        b = fx.bodies[b.parent]
        n += 1
    return n


def expand_combinators(fx):
    """Rewrite every verdict combinator call whose closure is defined in the crate; returns the list of `caller: combinator`."""
    done = []
    order = sorted(fx.bodies.values(), key=lambda b: -_depth(fx, b))   # inner closures first
    for b in order:
        if b.id not in fx.bodies or "::tests::" in b.sname or b.derived:
            continue
        if not any(x.endswith(("::is_some_and", "::is_none_or", "::map_or", "::filter", "::is_ok_and", "::is_err_and"))
                   for x in (strip_generics(c) or "" for c in (b.sum_calls or ()))):
            continue
        try:
            fj = b._full()
        except Exception:
            continue
        mj0 = b.__dict__.get("_inl_json") or fj["mir"]
        mj = mj0
        prom = list(b.__dict__.get("_inl_prom") or fj.get("promoted", []))
        skip = set()
        progressed = True
        while progressed:
            progressed = False
            for bi, blk in enumerate(mj["blocks"]):
                t = blk.get("t") or {}
                if t.get("k") != "call" or blk.get("cleanup") or bi in skip:
                    continue
                name, spec = _combinator_spec(t.get("callee"))
                if not spec or not t.get("args"):
                    continue
                if name == "map_or" and t.get("dest_ty") != "bool":
                    continue      # only verdicts: a mapped value is left to the rules that follow values through closures
                clos = t["args"][-1]
                cv = _closure_value(mj, clos[1][0]) if clos[0] in ("copy", "move") and not clos[1][1] else None
                kid = fx.bodies.get(cv[0]) if cv else None
                if kid is None:
                    skip.add(bi)
                    continue
                try:
                    kj = kid.__dict__.get("_inl_json") or kid._full()["mir"]
                    if any((x.get("t") or {}).get("k") in ("yield", "coroutine_drop", "tailcall") for x in kj["blocks"]):
                        raise ValueError("coroutine")
                    kprom = list(kid.__dict__.get("_inl_prom") or kid._full().get("promoted", []))
                    mj2 = expand_combinator(mj, bi, name, spec, kj, cv[1], len(prom))
                    Mir(mj2)
                except Exception:
                    skip.add(bi)
                    continue
                mj = mj2
                prom = prom + kprom
                progressed = True
                done.append("%s: %s" % (b.sname, name))
                b.sum_calls = tuple(sorted(set(b.sum_calls or ()) | set(kid.sum_calls or ())))
                b.sum_writes = tuple(sorted({tuple(x) for x in (b.sum_writes or ())} | {tuple(x) for x in (kid.sum_writes or ())}))
                b.sum_aggs = tuple(sorted(set(b.sum_aggs or ()) | set(kid.sum_aggs or ())))
                b.sum_fields = tuple(sorted({tuple(x) for x in (b.sum_fields or ())} | {tuple(x) for x in (kid.sum_fields or ())}))
                b.sum_edges = tuple(sorted((set(b.sum_edges or ()) | set(kid.sum_edges or ())) - {kid.id}))
                # the closure body now lives in the caller: it is no longer a separate body of the program
                if kid in b.children:
                    b.children.remove(kid)
                for ch in kid.children:
                    ch.parent = b.id
                    if ch not in b.children:
                        b.children.append(ch)
                fx.bodies.pop(kid.id, None)
                break
        if mj is not mj0:
            b.__dict__["_inl_json"] = mj
            b.__dict__["_inl_prom"] = prom
            b._mir = Mir(mj)
            b._prom = [Mir(p) for p in prom]
    if done:
        for attr in ("_by_name", "_fn_index"):
            fx.__dict__.pop(attr, None)
        fx._cg = None
    return done
