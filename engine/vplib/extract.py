"""Freshness: facts are keyed by a hash of /repo's current sources; (re)extract on miss."""
import fcntl, hashlib, os, shutil, subprocess, sys, time

VERIF = os.path.dirname(os.path.dirname(os.path.dirname(os.path.abspath(__file__))))
REPO = os.environ.get("VP_REPO", "/repo")
CACHE = os.environ.get("VP_CACHE", os.path.join(VERIF, ".cache"))
DRIVER = os.path.join(VERIF, "engine", "mirfacts", "target", "release", "mirfacts")
CRATES = ["dust_dds", "dust_dds_derive"]


class InfraError(Exception):
    pass


def _sysroot():
    return subprocess.check_output(["rustc", "+nightly", "--print", "sysroot"], text=True).strip()


def file_hash(path):
    h = hashlib.sha256()
    with open(path, "rb") as f:
        h.update(f.read())
    return h.hexdigest()


def tree_hash(repo=None, extra=()):
    repo = repo or REPO
    h = hashlib.sha256()
    roots = [os.path.join(repo, "dds"), os.path.join(repo, "dds_derive")]
    files = [os.path.join(repo, "Cargo.toml"), os.path.join(repo, "Cargo.lock")]
    for r in roots:
        for dp, dn, fn in os.walk(r):
            dn[:] = sorted(d for d in dn if d not in ("target", ".git"))
            for f in sorted(fn):
                files.append(os.path.join(dp, f))
    n = 0
    for p in sorted(files):
        if not os.path.isfile(p):
            continue
        rel = os.path.relpath(p, repo)
        h.update(rel.encode())
        h.update(b"\0")
        with open(p, "rb") as f:
            h.update(f.read())
        h.update(b"\0")
        n += 1
    if os.path.exists(DRIVER):
        h.update(file_hash(DRIVER).encode())
    for e in extra:
        h.update(str(e).encode())
    return h.hexdigest()[:24], n


def ensure_driver():
    if not os.path.exists(DRIVER):
        d = os.path.join(VERIF, "engine", "mirfacts")
        env = dict(os.environ, CARGO_NET_OFFLINE="true")
        r = subprocess.run(["cargo", "+nightly", "build", "--release", "--offline"], cwd=d, env=env,
                           stdout=subprocess.PIPE, stderr=subprocess.STDOUT, text=True)
        if r.returncode != 0 or not os.path.exists(DRIVER):
            raise InfraError("cannot build mirfacts driver:\n" + r.stdout[-3000:])


def run_extraction(repo, out_dir, target_dir, packages, crates, features=None, src_hash=""):
    """Run cargo +nightly check with the driver as workspace wrapper."""
    ensure_driver()
    env = dict(os.environ)
    env["LD_LIBRARY_PATH"] = _sysroot() + "/lib" + (":" + env["LD_LIBRARY_PATH"] if env.get("LD_LIBRARY_PATH") else "")
    env["RUSTFLAGS"] = "-Zmir-opt-level=0 -Awarnings"
    env["RUSTC_WORKSPACE_WRAPPER"] = DRIVER
    env["VP_FACTS_OUT"] = out_dir
    env["VP_CRATES"] = ",".join(crates)
    env["VP_SRC_HASH"] = src_hash
    env["CARGO_TARGET_DIR"] = target_dir
    env["CARGO_NET_OFFLINE"] = "true"
    env.pop("RUSTC_WRAPPER", None)
    # cargo's freshness cache would skip the wrapper on a warm target dir
    fp = os.path.join(target_dir, "debug", ".fingerprint")
    if os.path.isdir(fp):
        for d in os.listdir(fp):
            for c in crates:
                if d.startswith(c + "-") or d.startswith(c.replace("_", "-") + "-"):
                    shutil.rmtree(os.path.join(fp, d), ignore_errors=True)
    cmd = ["cargo", "+nightly", "check", "--offline", "--lib"]
    for p in packages:
        cmd += ["-p", p]
    if features is not None:
        cmd += ["--no-default-features"]
        if features:
            cmd += ["--features", ",".join(features)]
    os.makedirs(out_dir, exist_ok=True)
    t = time.time()
    r = subprocess.run(cmd, cwd=repo, env=env, stdout=subprocess.PIPE, stderr=subprocess.STDOUT, text=True)
    return r.returncode, r.stdout, time.time() - t


def facts_for_repo(repo=None, features=None, quiet=False):
    """Return (paths, hash, info). Extracts when the cache has no entry for the current tree."""
    repo = repo or REPO
    tag = "default" if features is None else ("nodefault_" + "_".join(features))
    h, nfiles = tree_hash(repo, extra=(tag,))
    d = os.path.join(CACHE, "facts", h)
    paths = [os.path.join(d, c + ".facts.jsonl") for c in CRATES]
    os.makedirs(os.path.join(CACHE, "facts"), exist_ok=True)
    lock = open(os.path.join(CACHE, "extract.lock"), "w")
    fcntl.flock(lock, fcntl.LOCK_EX)
    try:
        if all(os.path.exists(p) for p in paths) and os.path.exists(os.path.join(d, "OK")):
            return paths, h, {"cache": "hit", "files_hashed": nfiles, "features": tag}
        tmp = d + ".tmp"
        shutil.rmtree(tmp, ignore_errors=True)
        target = os.path.join(CACHE, "target")
        if not quiet:
            print("[vp] extracting MIR facts for tree %s (%d files hashed) ..." % (h, nfiles), file=sys.stderr)
        rc, out, secs = run_extraction(repo, tmp, target, ["dust_dds", "dust_dds_derive"], CRATES, features, h)
        if rc != 0:
            shutil.rmtree(tmp, ignore_errors=True)
            raise InfraError("/repo does not build under `cargo +nightly check` (rc=%d):\n%s" % (rc, out[-4000:]))
        for c in CRATES:
            if not os.path.exists(os.path.join(tmp, c + ".facts.jsonl")):
                shutil.rmtree(tmp, ignore_errors=True)
                raise InfraError("extractor produced no facts for crate %s (wrapper skipped?)\n%s" % (c, out[-2000:]))
        # tree must not have changed while we were extracting
        h2, _ = tree_hash(repo, extra=(tag,))
        if h2 != h:
            shutil.rmtree(tmp, ignore_errors=True)
            raise InfraError("sources changed during extraction")
        shutil.rmtree(d, ignore_errors=True)
        os.rename(tmp, d)
        open(os.path.join(d, "OK"), "w").write("%.1f\n" % secs)
        _prune(os.path.join(CACHE, "facts"), keep=6)
        return paths, h, {"cache": "miss", "extract_s": round(secs, 1), "files_hashed": nfiles, "features": tag}
    finally:
        fcntl.flock(lock, fcntl.LOCK_UN)
        lock.close()


def _prune(d, keep):
    ents = [os.path.join(d, e) for e in os.listdir(d) if os.path.isdir(os.path.join(d, e)) and not e.endswith(".tmp")]
    ents.sort(key=os.path.getmtime, reverse=True)
    for e in ents[keep:]:
        shutil.rmtree(e, ignore_errors=True)


def facts_for_derive_cases(repo=None):
    """Facts of fixtures/derive_cases, a crate that path-depends on /repo/dds: the output of /repo's *current* derive macro for
    a fixed set of declarations. Keyed by the repo tree hash and the fixture sources."""
    repo = repo or REPO
    fx = os.path.join(VERIF, "fixtures", "derive_cases")
    extra = []
    for dp, dn, fn in os.walk(fx):
        dn[:] = sorted(x for x in dn if x != "target")
        for f in sorted(fn):
            if f == "Cargo.lock":
                continue
            p = os.path.join(dp, f)
            extra.append(os.path.relpath(p, fx))
            extra.append(file_hash(p))
    h, _ = tree_hash(repo, extra=extra)
    d = os.path.join(CACHE, "derive_cases_facts", h)
    path = os.path.join(d, "derive_cases.facts.jsonl")
    os.makedirs(os.path.join(CACHE, "derive_cases_facts"), exist_ok=True)
    lock = open(os.path.join(CACHE, "derive_cases.lock"), "w")
    fcntl.flock(lock, fcntl.LOCK_EX)
    try:
        if os.path.exists(path):
            return path
        # the crate resolves its dependencies with the repository's own lock file (offline)
        shutil.copyfile(os.path.join(repo, "Cargo.lock"), os.path.join(fx, "Cargo.lock"))
        tmp = d + ".tmp"
        shutil.rmtree(tmp, ignore_errors=True)
        rc, out, secs = run_extraction(fx, tmp, os.path.join(CACHE, "derive_cases_target"), ["derive_cases"], ["derive_cases"], None, h)
        if rc != 0 or not os.path.exists(os.path.join(tmp, "derive_cases.facts.jsonl")):
            raise InfraError("derive_cases does not build against the current /repo (a declaration of the documented attribute language is rejected, or the macro output does not compile):\n" + out[-3000:])
        shutil.rmtree(d, ignore_errors=True)
        os.rename(tmp, d)
        _prune(os.path.join(CACHE, "derive_cases_facts"), keep=2)
        return path
    finally:
        fcntl.flock(lock, fcntl.LOCK_UN)
        lock.close()


def facts_for_fixture():
    """Facts of fixtures/vp_fixture (built on demand, keyed by fixture sources + driver)."""
    fx = os.path.join(VERIF, "fixtures", "vp_fixture")
    h = hashlib.sha256()
    for dp, dn, fn in os.walk(fx):
        dn[:] = sorted(x for x in dn if x != "target")
        for f in sorted(fn):
            p = os.path.join(dp, f)
            h.update(os.path.relpath(p, fx).encode())
            h.update(open(p, "rb").read())
    ensure_driver()
    h.update(file_hash(DRIVER).encode())
    hh = h.hexdigest()[:24]
    d = os.path.join(CACHE, "fixture_facts", hh)
    path = os.path.join(d, "vp_fixture.facts.jsonl")
    os.makedirs(os.path.join(CACHE, "fixture_facts"), exist_ok=True)
    lock = open(os.path.join(CACHE, "fixture.lock"), "w")
    fcntl.flock(lock, fcntl.LOCK_EX)
    try:
        if os.path.exists(path):
            return path
        tmp = d + ".tmp"
        shutil.rmtree(tmp, ignore_errors=True)
        rc, out, secs = run_extraction(fx, tmp, os.path.join(CACHE, "fixture_target"), ["vp_fixture"], ["vp_fixture"], None, hh)
        if rc != 0 or not os.path.exists(os.path.join(tmp, "vp_fixture.facts.jsonl")):
            raise InfraError("fixture crate failed to extract:\n" + out[-3000:])
        shutil.rmtree(d, ignore_errors=True)
        os.rename(tmp, d)
        _prune(os.path.join(CACHE, "fixture_facts"), keep=2)
        return path
    finally:
        fcntl.flock(lock, fcntl.LOCK_UN)
        lock.close()
