//! mirfacts — generic MIR fact extractor (no property knowledge).
//!
//! Used as RUSTC_WORKSPACE_WRAPPER: argv[1] is the real rustc path (dropped).
//! For crates named in VP_CRATES (comma separated) it dumps, after macro expansion
//! and before borrowck, the `mir_promoted` body of every body owner plus ADT / impl
//! tables, as JSON lines, into $VP_FACTS_OUT/<crate>.facts.jsonl (one write per process).
//! Compilation then continues normally.
#![feature(rustc_private)]
#![allow(clippy::all)]

extern crate rustc_abi;
extern crate rustc_data_structures;
extern crate rustc_driver;
extern crate rustc_hir;
extern crate rustc_interface;
extern crate rustc_middle;
extern crate rustc_session;
extern crate rustc_span;

mod json;
use json::J;

use rustc_driver::{Callbacks, Compilation};
use rustc_hir::def::DefKind;
use rustc_hir::def_id::{DefId, LocalDefId, LOCAL_CRATE};
use rustc_middle::mir::{
    self, AggregateKind, BasicBlock, Body, Const, ConstValue, Operand, Place, PlaceElem, Rvalue,
    StatementKind, TerminatorKind,
};
use rustc_middle::ty::print::with_no_trimmed_paths;
use rustc_middle::ty::{self, Instance, InstanceKind, Ty, TyCtxt, TypingEnv};
use rustc_span::Span;

const SCHEMA: i128 = 3;

struct Dump {
    out_dir: String,
}

impl Callbacks for Dump {
    fn after_expansion<'tcx>(
        &mut self,
        _compiler: &rustc_interface::interface::Compiler,
        tcx: TyCtxt<'tcx>,
    ) -> Compilation {
        let text = with_no_trimmed_paths!(dump_crate(tcx));
        let name = tcx.crate_name(LOCAL_CRATE).to_string();
        let _ = std::fs::create_dir_all(&self.out_dir);
        let path = format!("{}/{}.facts.jsonl", self.out_dir, name);
        let tmp = format!("{}.tmp{}", path, std::process::id());
        std::fs::write(&tmp, text).expect("mirfacts: cannot write facts");
        std::fs::rename(&tmp, &path).expect("mirfacts: cannot rename facts");
        Compilation::Continue
    }
}

struct NoCb;
impl Callbacks for NoCb {}

fn main() {
    let mut args: Vec<String> = std::env::args().collect();
    // invoked as wrapper: mirfacts <rustc> <args...>
    if args.len() > 1 && (args[1].ends_with("rustc") || args[1].contains("/rustc")) {
        args.remove(1);
    }
    let crate_name = args
        .iter()
        .position(|a| a == "--crate-name")
        .and_then(|i| args.get(i + 1))
        .cloned()
        .unwrap_or_default();
    let wanted = std::env::var("VP_CRATES").unwrap_or_else(|_| "dust_dds,dust_dds_derive".into());
    let is_wanted = wanted.split(',').any(|w| w == crate_name);
    // build scripts and `--print` probes are passed through
    let out = std::env::var("VP_FACTS_OUT").ok();
    if is_wanted && out.is_some() && !args.iter().any(|a| a.starts_with("--print")) {
        let mut cb = Dump { out_dir: out.unwrap() };
        rustc_driver::run_compiler(&args, &mut cb);
    } else {
        rustc_driver::run_compiler(&args, &mut NoCb);
    }
}

// ---------------------------------------------------------------------------------

fn def_id_str(tcx: TyCtxt<'_>, did: DefId) -> String {
    // unique, stable across runs: crate name + verbose def path (with disambiguators)
    format!("{}{}", tcx.crate_name(did.krate), tcx.def_path(did).to_string_no_crate_verbose())
}

fn span_loc(tcx: TyCtxt<'_>, span: Span) -> (String, i128) {
    let sm = tcx.sess.source_map();
    let sp = span.source_callsite();
    let lo = sm.lookup_char_pos(sp.lo());
    let file = match &lo.file.name {
        rustc_span::FileName::Real(r) => match r.local_path() {
            Some(p) => p.to_string_lossy().to_string(),
            None => format!("{:?}", lo.file.name),
        },
        other => format!("{:?}", other),
    };
    (file, lo.line as i128)
}

fn expn_name(tcx: TyCtxt<'_>, span: Span) -> J {
    if !span.from_expansion() {
        return J::Null;
    }
    // outermost macro of the expansion chain, and the innermost one
    let mut names: Vec<String> = Vec::new();
    let mut sp = span;
    let mut guard = 0;
    while sp.from_expansion() && guard < 16 {
        let data = sp.ctxt().outer_expn_data();
        let n = match data.macro_def_id {
            Some(d) => tcx.def_path_str(d),
            None => format!("{:?}", data.kind),
        };
        names.push(n);
        sp = data.call_site;
        guard += 1;
    }
    J::Arr(names.into_iter().map(J::s).collect())
}

fn ty_str<'tcx>(ty: Ty<'tcx>) -> String {
    format!("{}", ty)
}

struct Cx<'a, 'tcx> {
    tcx: TyCtxt<'tcx>,
    body: &'a Body<'tcx>,
    owner: DefId,
    typing_env: TypingEnv<'tcx>,
}

impl<'a, 'tcx> Cx<'a, 'tcx> {
    fn place(&self, p: &Place<'tcx>) -> J {
        let tcx = self.tcx;
        let mut projs: Vec<J> = Vec::new();
        let mut pty = mir::PlaceTy::from_ty(self.body.local_decls[p.local].ty);
        for elem in p.projection.iter() {
            let j = match elem {
                PlaceElem::Deref => J::Arr(vec![J::s("deref")]),
                PlaceElem::Field(idx, fty) => {
                    let (adt, variant, fname) = match pty.ty.kind() {
                        ty::Adt(def, _) => {
                            let v = pty.variant_index.unwrap_or(rustc_abi::FIRST_VARIANT);
                            let vd = def.variant(v);
                            let fname = vd
                                .fields
                                .get(idx)
                                .map(|f| f.name.to_string())
                                .unwrap_or_else(|| format!("{}", idx.index()));
                            (tcx.def_path_str(def.did()), vd.name.to_string(), fname)
                        }
                        ty::Tuple(_) => ("(tuple)".to_string(), String::new(), format!("{}", idx.index())),
                        ty::Closure(d, _) | ty::Coroutine(d, _) | ty::CoroutineClosure(d, _) => {
                            let mut name = format!("upvar{}", idx.index());
                            if let Some(ld) = d.as_local() {
                                let caps = tcx.closure_captures(ld);
                                if let Some(c) = caps.get(idx.index()) {
                                    name = c.to_symbol().to_string();
                                }
                            }
                            ("(closure)".to_string(), String::new(), name)
                        }
                        _ => ("(other)".to_string(), String::new(), format!("{}", idx.index())),
                    };
                    J::Arr(vec![
                        J::s("field"),
                        J::Int(idx.index() as i128),
                        J::s(adt),
                        J::s(variant),
                        J::s(fname),
                        J::s(ty_str(fty)),
                    ])
                }
                PlaceElem::Index(l) => J::Arr(vec![J::s("index"), J::Int(l.index() as i128)]),
                PlaceElem::ConstantIndex { offset, min_length, from_end } => J::Arr(vec![
                    J::s("cindex"),
                    J::Int(offset as i128),
                    J::Int(min_length as i128),
                    J::Bool(from_end),
                ]),
                PlaceElem::Subslice { from, to, from_end } => J::Arr(vec![
                    J::s("subslice"),
                    J::Int(from as i128),
                    J::Int(to as i128),
                    J::Bool(from_end),
                ]),
                PlaceElem::Downcast(name, vidx) => J::Arr(vec![
                    J::s("downcast"),
                    J::s(name.map(|s| s.to_string()).unwrap_or_default()),
                    J::Int(vidx.index() as i128),
                ]),
                PlaceElem::OpaqueCast(_) => J::Arr(vec![J::s("opaque")]),
                PlaceElem::UnwrapUnsafeBinder(_) => J::Arr(vec![J::s("unwrap_binder")]),
            };
            projs.push(j);
            pty = pty.projection_ty(tcx, elem);
        }
        J::Arr(vec![J::Int(p.local.index() as i128), J::Arr(projs)])
    }

    fn constant(&self, c: &Const<'tcx>) -> J {
        let tcx = self.tcx;
        let ty = c.ty();
        let mut fields: Vec<(&'static str, J)> = vec![("ty", J::s(ty_str(ty)))];
        // function items
        if let ty::FnDef(did, args) = ty.kind() {
            fields.push(("fn", J::s(def_id_str(tcx, *did))));
            fields.push(("fn_name", J::s(tcx.def_path_str(*did))));
            fields.push(("fn_args", J::s(format!("{:?}", args))));
            return J::Obj(fields);
        }
        match c {
            Const::Unevaluated(uv, _) => {
                fields.push(("def", J::s(def_id_str(tcx, uv.def))));
                fields.push(("def_name", J::s(tcx.def_path_str(uv.def))));
                if let Some(p) = uv.promoted {
                    fields.push(("promoted", J::Int(p.index() as i128)));
                    return J::Obj(fields);
                }
            }
            _ => {}
        }
        // scalar value if cheaply available
        let is_prim = matches!(ty.kind(), ty::Bool | ty::Char | ty::Int(_) | ty::Uint(_));
        if is_prim {
            let promoted = matches!(c, Const::Unevaluated(uv, _) if uv.promoted.is_some());
            if !promoted {
                if let Some(si) = c.try_eval_scalar_int(tcx, self.typing_env) {
                    let size = si.size();
                    let bits = si.to_bits(size);
                    let v: i128 = match ty.kind() {
                        ty::Int(_) => size.sign_extend(bits) as i128,
                        _ => bits as i128,
                    };
                    fields.push(("v", J::Int(v)));
                }
            }
        } else if let Const::Val(ConstValue::Slice { alloc_id, meta }, _) = c {
            // &str / &[u8] literal
            if let ty::Ref(_, inner, _) = ty.kind() {
                if inner.is_str() {
                    if let rustc_middle::mir::interpret::GlobalAlloc::Memory(m) =
                        tcx.global_alloc(*alloc_id)
                    {
                        let a = m.inner();
                        let len = *meta as usize;
                        if len <= a.len() {
                            let bytes = a.inspect_with_uninit_and_ptr_outside_interpreter(0..len);
                            fields.push(("str", J::s(String::from_utf8_lossy(bytes).to_string())));
                        }
                    }
                }
            }
        } else if let Const::Val(ConstValue::ZeroSized, _) = c {
            fields.push(("zst", J::Bool(true)));
        }
        J::Obj(fields)
    }

    fn operand(&self, o: &Operand<'tcx>) -> J {
        match o {
            Operand::Copy(p) => J::Arr(vec![J::s("copy"), self.place(p)]),
            Operand::Move(p) => J::Arr(vec![J::s("move"), self.place(p)]),
            Operand::Constant(c) => J::Arr(vec![J::s("const"), self.constant(&c.const_)]),
            #[allow(unreachable_patterns)]
            other => J::Arr(vec![J::s("other"), J::s(format!("{:?}", other))]),
        }
    }

    fn rvalue(&self, rv: &Rvalue<'tcx>) -> J {
        let tcx = self.tcx;
        match rv {
            Rvalue::Use(op, ..) => J::Arr(vec![J::s("use"), self.operand(op)]),
            Rvalue::Repeat(op, n) => J::Arr(vec![J::s("repeat"), self.operand(op), J::s(format!("{}", n))]),
            Rvalue::Ref(_, bk, p) => {
                let k = match bk {
                    mir::BorrowKind::Shared => "shared",
                    mir::BorrowKind::Fake(_) => "fake",
                    mir::BorrowKind::Mut { .. } => "mut",
                };
                J::Arr(vec![J::s("ref"), J::s(k), self.place(p)])
            }
            Rvalue::ThreadLocalRef(d) => J::Arr(vec![J::s("tls"), J::s(def_id_str(tcx, *d))]),
            Rvalue::RawPtr(_, p) => J::Arr(vec![J::s("rawptr"), self.place(p)]),
            Rvalue::Cast(kind, op, to) => {
                let from = op.ty(&self.body.local_decls, tcx);
                J::Arr(vec![
                    J::s("cast"),
                    J::s(format!("{:?}", kind)),
                    self.operand(op),
                    J::s(ty_str(from)),
                    J::s(ty_str(*to)),
                ])
            }
            Rvalue::BinaryOp(op, ab) => {
                let (a, b) = &**ab;
                let aty = a.ty(&self.body.local_decls, tcx);
                J::Arr(vec![
                    J::s("binop"),
                    J::s(format!("{:?}", op)),
                    self.operand(a),
                    self.operand(b),
                    J::s(ty_str(aty)),
                ])
            }
            Rvalue::UnaryOp(op, a) => {
                J::Arr(vec![J::s("unop"), J::s(format!("{:?}", op)), self.operand(a)])
            }
            Rvalue::Discriminant(p) => {
                let pty = p.ty(&self.body.local_decls, tcx).ty;
                J::Arr(vec![J::s("discr"), self.place(p), J::s(ty_str(pty))])
            }
            Rvalue::Aggregate(kind, ops) => {
                let k = match &**kind {
                    AggregateKind::Array(t) => J::Obj(vec![("k", J::s("array")), ("ty", J::s(ty_str(*t)))]),
                    AggregateKind::Tuple => J::Obj(vec![("k", J::s("tuple"))]),
                    AggregateKind::Adt(did, vidx, _args, _, active) => {
                        let adt = tcx.adt_def(*did);
                        let vd = adt.variant(*vidx);
                        let fnames: Vec<J> = match active {
                            Some(f) => vec![J::s(vd.fields[*f].name.to_string())],
                            None => vd.fields.iter().map(|f| J::s(f.name.to_string())).collect(),
                        };
                        J::Obj(vec![
                            ("k", J::s("adt")),
                            ("adt", J::s(tcx.def_path_str(*did))),
                            ("variant", J::s(vd.name.to_string())),
                            ("vidx", J::Int(vidx.index() as i128)),
                            ("fields", J::Arr(fnames)),
                        ])
                    }
                    AggregateKind::Closure(did, _) => {
                        J::Obj(vec![("k", J::s("closure")), ("def", J::s(def_id_str(tcx, *did)))])
                    }
                    AggregateKind::Coroutine(did, _) => {
                        J::Obj(vec![("k", J::s("coroutine")), ("def", J::s(def_id_str(tcx, *did)))])
                    }
                    AggregateKind::CoroutineClosure(did, _) => J::Obj(vec![
                        ("k", J::s("coroutine_closure")),
                        ("def", J::s(def_id_str(tcx, *did))),
                    ]),
                    AggregateKind::RawPtr(..) => J::Obj(vec![("k", J::s("rawptr"))]),
                };
                J::Arr(vec![J::s("aggregate"), k, J::Arr(ops.iter().map(|o| self.operand(o)).collect())])
            }
            Rvalue::CopyForDeref(p) => J::Arr(vec![J::s("use"), J::Arr(vec![J::s("copy"), self.place(p)])]),
            #[allow(unreachable_patterns)]
            other => J::Arr(vec![J::s("other"), J::s(format!("{:?}", other))]),
        }
    }

    fn callee(&self, func: &Operand<'tcx>) -> J {
        let tcx = self.tcx;
        let fty = func.ty(&self.body.local_decls, tcx);
        match fty.kind() {
            ty::FnDef(did, args) => {
                let mut f: Vec<(&'static str, J)> = vec![
                    ("def", J::s(def_id_str(tcx, *did))),
                    ("name", J::s(tcx.def_path_str(*did))),
                    ("args", J::s(format!("{:?}", args))),
                    ("local", J::Bool(did.is_local())),
                ];
                if let Some(tr) = tcx.trait_of_assoc(*did) {
                    f.push(("trait", J::s(tcx.def_path_str(tr))));
                    if args.len() > 0 {
                        if let Some(t) = args[0].as_type() {
                            f.push(("self_ty", J::s(ty_str(t))));
                        }
                    }
                } else if let Some(imp) = tcx.impl_of_assoc(*did) {
                    let st = tcx.type_of(imp).instantiate_identity().skip_normalization();
                    f.push(("impl_self", J::s(ty_str(st))));
                }
                // resolve
                let nargs = tcx.try_normalize_erasing_regions(
                    self.typing_env,
                    ty::Unnormalized::new(*args),
                );
                if let Ok(nargs) = nargs {
                    let dk = tcx.def_kind(*did);
                    if matches!(dk, DefKind::Fn | DefKind::AssocFn | DefKind::Ctor(..) | DefKind::Closure) {
                        match Instance::try_resolve(tcx, self.typing_env, *did, nargs) {
                            Ok(Some(inst)) => {
                                let (kind, rdid) = match inst.def {
                                    InstanceKind::Item(d) => ("item", Some(d)),
                                    InstanceKind::Intrinsic(d) => ("intrinsic", Some(d)),
                                    InstanceKind::Virtual(d, _) => ("virtual", Some(d)),
                                    InstanceKind::ClosureOnceShim { call_once, .. } => {
                                        ("closure_once_shim", Some(call_once))
                                    }
                                    InstanceKind::FnPtrShim(d, _) => ("fnptr_shim", Some(d)),
                                    InstanceKind::DropGlue(d, _) => ("drop_glue", Some(d)),
                                    InstanceKind::CloneShim(d, _) => ("clone_shim", Some(d)),
                                    InstanceKind::ReifyShim(d, _) => ("reify_shim", Some(d)),
                                    InstanceKind::VTableShim(d) => ("vtable_shim", Some(d)),
                                    _ => ("other", None),
                                };
                                f.push(("res_kind", J::s(kind)));
                                if let Some(d) = rdid {
                                    f.push(("res", J::s(def_id_str(tcx, d))));
                                    f.push(("res_name", J::s(tcx.def_path_str(d))));
                                    f.push(("res_local", J::Bool(d.is_local())));
                                }
                                // for ClosureOnceShim / closures called through Fn* traits, the closure itself
                                if let InstanceKind::ClosureOnceShim { .. } = inst.def {
                                    if let Some(t) = inst.args.get(0).and_then(|a| a.as_type()) {
                                        if let ty::Closure(cd, _) = t.kind() {
                                            f.push(("closure", J::s(def_id_str(tcx, *cd))));
                                        }
                                    }
                                }
                            }
                            Ok(None) => f.push(("res_kind", J::s("unresolved"))),
                            Err(_) => f.push(("res_kind", J::s("error"))),
                        }
                    }
                } else {
                    f.push(("res_kind", J::s("unnormalizable")));
                }
                J::Obj(f)
            }
            ty::FnPtr(..) => J::Obj(vec![("indirect", J::s("fnptr")), ("op", self.operand(func))]),
            _ => J::Obj(vec![("indirect", J::s(ty_str(fty))), ("op", self.operand(func))]),
        }
    }

    fn bb(b: BasicBlock) -> J {
        J::Int(b.index() as i128)
    }
    fn obb(b: &Option<BasicBlock>) -> J {
        match b {
            Some(b) => Self::bb(*b),
            None => J::Null,
        }
    }
    fn unwind(u: &mir::UnwindAction) -> J {
        match u {
            mir::UnwindAction::Cleanup(b) => Self::bb(*b),
            _ => J::Null,
        }
    }

    fn terminator(&self, t: &mir::Terminator<'tcx>) -> J {
        let tcx = self.tcx;
        let (_file, line) = span_loc(tcx, t.source_info.span);
        let exp = expn_name(tcx, t.source_info.span);
        let mut f: Vec<(&'static str, J)> = Vec::new();
        match &t.kind {
            TerminatorKind::Goto { target } => {
                f.push(("k", J::s("goto")));
                f.push(("target", Self::bb(*target)));
            }
            TerminatorKind::SwitchInt { discr, targets } => {
                f.push(("k", J::s("switch")));
                f.push(("discr", self.operand(discr)));
                f.push(("discr_ty", J::s(ty_str(discr.ty(&self.body.local_decls, tcx)))));
                let mut arms = Vec::new();
                for (v, b) in targets.iter() {
                    arms.push(J::Arr(vec![J::Int(v as i128), Self::bb(b)]));
                }
                f.push(("arms", J::Arr(arms)));
                f.push(("otherwise", Self::bb(targets.otherwise())));
            }
            TerminatorKind::UnwindResume => f.push(("k", J::s("resume"))),
            TerminatorKind::UnwindTerminate(_) => f.push(("k", J::s("terminate"))),
            TerminatorKind::Return => f.push(("k", J::s("return"))),
            TerminatorKind::Unreachable => f.push(("k", J::s("unreachable"))),
            TerminatorKind::Drop { place, target, unwind, .. } => {
                f.push(("k", J::s("drop")));
                f.push(("place", self.place(place)));
                f.push(("target", Self::bb(*target)));
                f.push(("unwind", Self::unwind(unwind)));
            }
            TerminatorKind::Call { func, args, destination, target, unwind, .. } => {
                f.push(("k", J::s("call")));
                f.push(("callee", self.callee(func)));
                f.push(("args", J::Arr(args.iter().map(|a| self.operand(&a.node)).collect())));
                f.push(("dest", self.place(destination)));
                f.push(("dest_ty", J::s(ty_str(destination.ty(&self.body.local_decls, tcx).ty))));
                f.push(("target", Self::obb(target)));
                f.push(("unwind", Self::unwind(unwind)));
            }
            TerminatorKind::TailCall { func, args, .. } => {
                f.push(("k", J::s("tailcall")));
                f.push(("callee", self.callee(func)));
                f.push(("args", J::Arr(args.iter().map(|a| self.operand(&a.node)).collect())));
            }
            TerminatorKind::Assert { cond, expected, msg, target, unwind } => {
                f.push(("k", J::s("assert")));
                f.push(("cond", self.operand(cond)));
                f.push(("expected", J::Bool(*expected)));
                let (kind, ops): (String, Vec<J>) = match &**msg {
                    mir::AssertKind::BoundsCheck { len, index } => {
                        ("BoundsCheck".into(), vec![self.operand(len), self.operand(index)])
                    }
                    mir::AssertKind::Overflow(op, a, b) => {
                        (format!("Overflow({:?})", op), vec![self.operand(a), self.operand(b)])
                    }
                    mir::AssertKind::OverflowNeg(a) => ("OverflowNeg".into(), vec![self.operand(a)]),
                    mir::AssertKind::DivisionByZero(a) => ("DivisionByZero".into(), vec![self.operand(a)]),
                    mir::AssertKind::RemainderByZero(a) => ("RemainderByZero".into(), vec![self.operand(a)]),
                    other => (format!("{:?}", other).split('(').next().unwrap_or("").to_string(), vec![]),
                };
                f.push(("assert_kind", J::s(kind)));
                f.push(("ops", J::Arr(ops)));
                f.push(("target", Self::bb(*target)));
                f.push(("unwind", Self::unwind(unwind)));
            }
            TerminatorKind::Yield { value, resume, drop, .. } => {
                f.push(("k", J::s("yield")));
                f.push(("value", self.operand(value)));
                f.push(("target", Self::bb(*resume)));
                f.push(("drop", Self::obb(drop)));
            }
            TerminatorKind::CoroutineDrop => f.push(("k", J::s("coroutine_drop"))),
            TerminatorKind::FalseEdge { real_target, imaginary_target } => {
                f.push(("k", J::s("goto")));
                f.push(("target", Self::bb(*real_target)));
                f.push(("imaginary", Self::bb(*imaginary_target)));
            }
            TerminatorKind::FalseUnwind { real_target, .. } => {
                f.push(("k", J::s("goto")));
                f.push(("target", Self::bb(*real_target)));
                f.push(("false_unwind", J::Bool(true)));
            }
            TerminatorKind::InlineAsm { .. } => f.push(("k", J::s("asm"))),
        }
        f.push(("line", J::Int(line)));
        f.push(("exp", exp));
        J::Obj(f)
    }

    fn statement(&self, s: &mir::Statement<'tcx>) -> Option<J> {
        let tcx = self.tcx;
        match &s.kind {
            StatementKind::Assign(b) => {
                let (p, rv) = &**b;
                let (_f, line) = span_loc(tcx, s.source_info.span);
                Some(J::Obj(vec![
                    ("k", J::s("assign")),
                    ("lhs", self.place(p)),
                    ("rv", self.rvalue(rv)),
                    ("line", J::Int(line)),
                    ("exp", expn_name(tcx, s.source_info.span)),
                ]))
            }
            StatementKind::SetDiscriminant { place, variant_index } => {
                let (_f, line) = span_loc(tcx, s.source_info.span);
                Some(J::Obj(vec![
                    ("k", J::s("setdiscr")),
                    ("lhs", self.place(place)),
                    ("vidx", J::Int(variant_index.index() as i128)),
                    ("line", J::Int(line)),
                ]))
            }
            StatementKind::Intrinsic(i) => {
                let (_f, line) = span_loc(tcx, s.source_info.span);
                Some(J::Obj(vec![
                    ("k", J::s("intrinsic")),
                    ("text", J::s(format!("{:?}", i))),
                    ("line", J::Int(line)),
                ]))
            }
            _ => None,
        }
    }

    fn body_json(&self) -> J {
        let tcx = self.tcx;
        let body = self.body;
        let locals: Vec<J> = body.local_decls.iter().map(|d| J::s(ty_str(d.ty))).collect();
        let mut names: Vec<J> = Vec::new();
        for vdi in body.var_debug_info.iter() {
            if let mir::VarDebugInfoContents::Place(p) = &vdi.value {
                names.push(J::Arr(vec![J::s(vdi.name.to_string()), self.place(p)]));
            }
        }
        let mut blocks: Vec<J> = Vec::new();
        for (_bb, data) in body.basic_blocks.iter_enumerated() {
            let stmts: Vec<J> = data.statements.iter().filter_map(|s| self.statement(s)).collect();
            let term = match &data.terminator {
                Some(t) => self.terminator(t),
                None => J::Null,
            };
            blocks.push(J::Obj(vec![
                ("s", J::Arr(stmts)),
                ("t", term),
                ("cleanup", if data.is_cleanup { J::Bool(true) } else { J::Null }),
            ]));
        }
        let _ = tcx;
        J::Obj(vec![
            ("arg_count", J::Int(body.arg_count as i128)),
            ("locals", J::Arr(locals)),
            ("names", J::Arr(names)),
            ("blocks", J::Arr(blocks)),
        ])
    }
}

fn item_header<'tcx>(tcx: TyCtxt<'tcx>, ldid: LocalDefId) -> Vec<(&'static str, J)> {
    let did = ldid.to_def_id();
    let dk = tcx.def_kind(did);
    let (file, line) = span_loc(tcx, tcx.def_span(did));
    let mut f: Vec<(&'static str, J)> = vec![
        ("rec", J::s("body")),
        ("id", J::s(def_id_str(tcx, did))),
        ("name", J::s(tcx.def_path_str(did))),
        ("kind", J::s(format!("{:?}", dk))),
        ("file", J::s(file)),
        ("line", J::Int(line)),
        ("from_expansion", J::Bool(tcx.def_span(did).from_expansion())),
    ];
    let parent = tcx.local_parent(ldid);
    f.push(("parent", J::s(def_id_str(tcx, parent.to_def_id()))));
    if matches!(dk, DefKind::Fn | DefKind::AssocFn) {
        f.push(("vis", J::s(format!("{:?}", tcx.visibility(did)))));
        let sig = tcx.fn_sig(did).instantiate_identity().skip_normalization().skip_binder();
        f.push(("inputs", J::Arr(sig.inputs().iter().map(|t| J::s(ty_str(*t))).collect())));
        f.push(("output", J::s(ty_str(sig.output()))));
        f.push(("asyncness", J::Bool(tcx.asyncness(did).is_async())));
    }
    if matches!(dk, DefKind::AssocFn) {
        if let Some(imp) = tcx.impl_of_assoc(did) {
            let st = tcx.type_of(imp).instantiate_identity().skip_normalization();
            f.push(("impl_self", J::s(ty_str(st))));
            if let ty::Adt(ad, _) = st.kind() {
                f.push(("impl_self_adt", J::s(tcx.def_path_str(ad.did()))));
            }
            f.push(("impl", J::s(def_id_str(tcx, imp))));
            if let Some(tr) = tcx.impl_opt_trait_ref(imp) {
                let tr = tr.instantiate_identity().skip_normalization();
                f.push(("impl_trait", J::s(tcx.def_path_str(tr.def_id))));
                f.push(("impl_trait_ref", J::s(format!("{}", tr))));
                f.push(("derived", J::Bool(tcx.is_automatically_derived(imp))));
            }
            if let Some(ti) = tcx.associated_item(did).trait_item_def_id() {
                f.push(("trait_item", J::s(def_id_str(tcx, ti))));
            }
        } else if let Some(tr) = tcx.trait_of_assoc(did) {
            f.push(("in_trait", J::s(tcx.def_path_str(tr))));
        }
        f.push(("item_name", J::s(tcx.item_name(did).to_string())));
    } else if matches!(dk, DefKind::Fn) {
        f.push(("item_name", J::s(tcx.item_name(did).to_string())));
    }
    f
}

fn dump_crate<'tcx>(tcx: TyCtxt<'tcx>) -> String {
    let mut out = String::with_capacity(64 << 20);
    let crate_name = tcx.crate_name(LOCAL_CRATE).to_string();

    // ---- pass 1: clone every available mir_promoted body before anything can steal it
    let owners: Vec<LocalDefId> = tcx.hir_body_owners().collect();
    let mut cloned: Vec<(LocalDefId, Body<'tcx>, Vec<Body<'tcx>>)> = Vec::new();
    let mut stolen: Vec<String> = Vec::new();
    for &ldid in owners.iter() {
        // anon consts (const generic arguments, array lengths) are typed through their
        // parent; forcing their MIR directly raises a delayed bug, and no rule needs them
        if matches!(tcx.def_kind(ldid), DefKind::AnonConst) {
            continue;
        }
        let (b, p) = tcx.mir_promoted(ldid);
        if b.is_stolen() || p.is_stolen() {
            stolen.push(def_id_str(tcx, ldid.to_def_id()));
            continue;
        }
        let body = b.borrow().clone();
        let proms: Vec<Body<'tcx>> = p.borrow().iter().cloned().collect();
        cloned.push((ldid, body, proms));
    }

    // ---- meta
    let cfgs: Vec<J> = {
        let mut v: Vec<String> = tcx
            .sess
            .config
            .iter()
            .filter(|(k, _)| k.as_str() == "feature")
            .filter_map(|(_, v)| v.map(|s| s.to_string()))
            .collect();
        v.sort();
        v.into_iter().map(J::s).collect()
    };
    let mut n_blocks = 0i128;
    let mut n_calls = 0i128;
    let mut n_asserts = 0i128;
    for (_, b, _) in cloned.iter() {
        n_blocks += b.basic_blocks.len() as i128;
        for bb in b.basic_blocks.iter() {
            match bb.terminator.as_ref().map(|t| &t.kind) {
                Some(TerminatorKind::Call { .. }) => n_calls += 1,
                Some(TerminatorKind::Assert { .. }) => n_asserts += 1,
                _ => {}
            }
        }
    }
    let meta = J::Obj(vec![
        ("rec", J::s("meta")),
        ("schema", J::Int(SCHEMA)),
        ("crate", J::s(crate_name.clone())),
        ("rustc", J::s(rustc_version())),
        ("features", J::Arr(cfgs)),
        ("src_hash", J::s(std::env::var("VP_SRC_HASH").unwrap_or_default())),
        ("bodies", J::Int(cloned.len() as i128)),
        ("blocks", J::Int(n_blocks)),
        ("calls", J::Int(n_calls)),
        ("asserts", J::Int(n_asserts)),
        ("stolen", J::Arr(stolen.into_iter().map(J::s).collect())),
    ]);
    meta.write(&mut out);
    out.push('\n');

    // ---- ADTs
    for ldid in tcx.hir_crate_items(()).definitions() {
        let did = ldid.to_def_id();
        let dk = tcx.def_kind(did);
        if !matches!(dk, DefKind::Struct | DefKind::Enum | DefKind::Union) {
            continue;
        }
        let adt = tcx.adt_def(did);
        let mut variants = Vec::new();
        let discrs: Vec<i128> = if adt.is_enum() {
            adt.discriminants(tcx).map(|(_, d)| d.val as i128).collect()
        } else {
            vec![]
        };
        for (i, v) in adt.variants().iter().enumerate() {
            let fields: Vec<J> = v
                .fields
                .iter()
                .map(|f| {
                    let t = tcx.type_of(f.did).instantiate_identity().skip_normalization();
                    J::Arr(vec![J::s(f.name.to_string()), J::s(ty_str(t))])
                })
                .collect();
            variants.push(J::Obj(vec![
                ("name", J::s(v.name.to_string())),
                ("discr", discrs.get(i).map(|d| J::Int(*d)).unwrap_or(J::Null)),
                ("fields", J::Arr(fields)),
            ]));
        }
        let (file, line) = span_loc(tcx, tcx.def_span(did));
        J::Obj(vec![
            ("rec", J::s("adt")),
            ("id", J::s(def_id_str(tcx, did))),
            ("name", J::s(tcx.def_path_str(did))),
            ("kind", J::s(format!("{:?}", dk))),
            ("file", J::s(file)),
            ("line", J::Int(line)),
            ("variants", J::Arr(variants)),
        ])
        .write(&mut out);
        out.push('\n');
    }

    // ---- trait impls
    for (tr, impls) in tcx.all_local_trait_impls(()).iter() {
        for imp in impls.iter() {
            let idid = imp.to_def_id();
            let st = tcx.type_of(idid).instantiate_identity().skip_normalization();
            let trr = tcx.impl_trait_ref(idid).instantiate_identity().skip_normalization();
            let mut items = Vec::new();
            for ai in tcx.associated_items(idid).in_definition_order() {
                if !ai.is_fn() {
                    continue;
                }
                items.push(J::Arr(vec![
                    J::s(ai.name().to_string()),
                    J::s(def_id_str(tcx, ai.def_id)),
                    match ai.trait_item_def_id() {
                        Some(t) => J::s(def_id_str(tcx, t)),
                        None => J::Null,
                    },
                ]));
            }
            let (file, line) = span_loc(tcx, tcx.def_span(idid));
            J::Obj(vec![
                ("rec", J::s("impl")),
                ("id", J::s(def_id_str(tcx, idid))),
                ("trait", J::s(tcx.def_path_str(*tr))),
                ("trait_ref", J::s(format!("{}", trr))),
                ("self_ty", J::s(ty_str(st))),
                (
                    "self_adt",
                    match st.kind() {
                        ty::Adt(ad, _) => J::s(tcx.def_path_str(ad.did())),
                        _ => J::Null,
                    },
                ),
                ("derived", J::Bool(tcx.is_automatically_derived(idid))),
                ("items", J::Arr(items)),
                ("file", J::s(file)),
                ("line", J::Int(line)),
            ])
            .write(&mut out);
            out.push('\n');
        }
    }

    // ---- trait method defaults (provided methods of local traits)
    // (bodies of provided methods are ordinary body owners; nothing more needed)

    // ---- pass 2: serialise bodies
    for (ldid, body, proms) in cloned.iter() {
        let did = ldid.to_def_id();
        let typing_env = TypingEnv::post_analysis(tcx, did);
        let mut f = item_header(tcx, *ldid);
        let cx = Cx { tcx, body, owner: did, typing_env };
        let _ = cx.owner;
        f.push(("mir", cx.body_json()));
        let mut pj = Vec::new();
        for pb in proms.iter() {
            let pcx = Cx { tcx, body: pb, owner: did, typing_env };
            pj.push(pcx.body_json());
        }
        f.push(("promoted", J::Arr(pj)));
        J::Obj(f).write(&mut out);
        out.push('\n');
    }
    out
}

fn rustc_version() -> String {
    option_env!("CFG_RELEASE").map(|s| s.to_string()).unwrap_or_else(|| {
        std::env::var("VP_RUSTC_VERSION").unwrap_or_else(|_| "nightly".to_string())
    })
}
