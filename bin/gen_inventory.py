#!/usr/bin/env python3
"""Writes tables/function_inventory.json: the functions of the analysed crates on the tree the rules were confirmed on.
A function that is not listed is new; calls to it are inlined before the rules run (engine/vplib/inline.py).
Regenerate only after all rules have been re-confirmed on the tree (it changes what counts as 'new')."""
import json, os, subprocess, sys
VERIF = os.path.dirname(os.path.dirname(os.path.abspath(__file__)))
sys.path.insert(0, os.path.join(VERIF, "engine"))
from vplib import extract, facts as F
names = set()
for feats in (None, ["rtps_udp_transport", "std", "xtypes-xml"]):
    paths, h, info = extract.facts_for_repo(features=feats)
    fx = F.load_facts(paths)
    for b in fx.bodies.values():
        if b.kind in ("Fn", "AssocFn"):
            names.add(b.sname)
head = subprocess.run(["git", "-C", "/repo", "rev-parse", "--short", "HEAD"], capture_output=True, text=True).stdout.strip()
json.dump({"_comment": "function names (generics stripped) of dust_dds and dust_dds_derive at the reference tree", "repo_head": head, "functions": sorted(names)},
          open(os.path.join(VERIF, "tables", "function_inventory.json"), "w"), indent=0)
print("functions:", len(names), "at", head)
