#!/usr/bin/env python3
"""Runs the repository's pinned test suite (guard off; there are no hooks) and compares with BASELINE.json stable_pass."""
import json, os, re, subprocess, sys, xml.etree.ElementTree as ET
base = json.load(open("/root/.vp/BASELINE.json"))
stable = set(base["stable_pass"])
env = dict(os.environ, CARGO_NET_OFFLINE="true")
cmd = "cd /repo && cargo nextest run --workspace --no-fail-fast --tool-config-file pb:/w/lib/nextest.toml --profile pb --test-threads 8 --offline"
try:
    os.unlink("/repo/target/nextest/pb/junit.xml")
except OSError:
    pass
r = subprocess.run(cmd, shell=True, env=env, stdout=subprocess.PIPE, stderr=subprocess.STDOUT, text=True)
out = r.stdout
passed, failed = set(), set()
jx = "/repo/target/nextest/pb/junit.xml"
root = ET.parse(jx).getroot()
for tc in root.iter("testcase"):
    tid = (tc.get("classname") or "") + "::" + (tc.get("name") or "")
    if tc.find("failure") is not None or tc.find("error") is not None or tc.find("flakyFailure") is not None or tc.find("rerunFailure") is not None:
        failed.add(tid)
    elif tc.find("skipped") is None:
        passed.add(tid)
passed -= failed
missing = sorted(s for s in stable if s not in passed)
print("passed=%d failed=%d stable=%d stable_not_passed=%d" % (len(passed), len(failed), len(stable), len(missing)))
for m_ in missing[:40]:
    print("  NOT-PASSED", m_, "(FAILED)" if m_ in failed else "(not run?)")
open("/tmp/vp_baseline_last.log", "w").write(out)
sys.exit(1 if missing else 0)
