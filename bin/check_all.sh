#!/bin/bash
# runs every claimed check (quick) and prints one summary line each
cd /verif
for p in $(python3 -c "import json;print(' '.join(c['property_id'] for c in json.load(open('MANIFEST.json'))['checks']))"); do
  out=$(timeout 900 bin/vp check $p 2>&1); rc=$?
  echo "$p rc=$rc $(echo "$out" | grep SUMMARY | sed 's/SUMMARY property=[A-Z0-9]* tier=quick //')"
  if [ $rc -ne 0 ]; then echo "$out" | grep -E "^VIOLATION|rule=|INFRA" | head -6 | cut -c1-260; fi
done
