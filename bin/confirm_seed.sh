#!/bin/bash
# usage: [SEEDROOT=/tmp/seed3] confirm_seed.sh <pid e.g. c03> <n>   — confirms $SEEDROOT/out/<pid>_<n> in worktree $SEEDROOT/<pid>
# 1. demo passes on clean tree  2. demo fails with patch  3. stable baseline tests still pass with patch
set -u
pid=$1; n=$2
root=${SEEDROOT:-/tmp/seed}
wt=$root/$pid; out=$root/out/${pid}_$n; dst=/verif/seeded/${pid}_$n
export CARGO_NET_OFFLINE=true CARGO_TARGET_DIR=$root/${pid}_target
mkdir -p $dst
log=$dst/confirm.log; : > $log
cd $wt || exit 2
git checkout -q -- . && git clean -fdq
demo_file=$(grep -h "^+++ b/" $out/demo.diff | head -1 | sed 's#+++ b/##')
demo_tests=$(python3 - "$out/demo.diff" <<'PY'
import re,sys
lines=open(sys.argv[1]).read().splitlines()
names=[]
for i,l in enumerate(lines):
    if re.match(r"^\+\s*#\[(tokio::)?test", l):
        for j in range(i+1,min(i+6,len(lines))):
            m=re.search(r"fn\s+([a-zA-Z0-9_]+)", lines[j])
            if m: names.append(m.group(1)); break
print(" ".join(names))
PY
)
echo "demo file: $demo_file  tests: $demo_tests" >> $log
git apply $out/demo.diff || { echo "DEMO DOES NOT APPLY" >> $log; exit 2; }
if [[ "$demo_file" == dds/tests/* ]]; then
  tname=$(basename $demo_file .rs); sel="--test $tname"
else
  sel="--lib -- $demo_tests"
fi
echo "### demo on clean tree: cargo test -p dust_dds --offline $sel" >> $log
( cd $wt && timeout 1500 unshare -n bash -c "ip link set lo up; ip link set lo multicast on; ip route add 224.0.0.0/4 dev lo; cargo test -p dust_dds --offline $sel 2>&1" | grep -E "^test |test result|error(\[|:)" | tail -15 ) >> $log 2>&1
clean_ok=$(grep -c "test result: ok" $log)
git apply $out/patch.diff || { echo "PATCH DOES NOT APPLY" >> $log; exit 2; }
echo "### demo with patch" >> $log
( cd $wt && timeout 1500 unshare -n bash -c "ip link set lo up; ip link set lo multicast on; ip route add 224.0.0.0/4 dev lo; cargo test -p dust_dds --offline $sel 2>&1" | grep -E "^test |test result|error(\[|:)" | tail -15 ) >> $log 2>&1
mut_fail=$(grep -c "test result: FAILED" $log)
echo "### existing suite with patch (demo removed)" >> $log
git apply -R $out/demo.diff
( cd $wt && timeout 3000 unshare -n bash -c "ip link set lo up; ip link set lo multicast on; ip route add 224.0.0.0/4 dev lo; cargo test -p dust_dds --offline --no-fail-fast 2>&1" | grep -E "^test result|^test .* FAILED" | sort | uniq -c | sort -rn | head -40 ) >> $log 2>&1
git checkout -q -- . && git clean -fdq
echo "RESULT clean_ok=$clean_ok mut_fail=$mut_fail" >> $log
[ -f $dst/patch.orig.diff ] || cp $out/patch.diff $dst/ 2>/dev/null; cp $out/demo.diff $out/notes.md $dst/ 2>/dev/null
tail -1 $log
