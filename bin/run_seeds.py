#!/usr/bin/env python3
"""Run every kept seeded change (seeded/<id>/patch.diff) and hand mutant (mutants/*.patch) against the checks of its property.
Writes seeded/<id>/meta.json (adds/updates the "checks" section) and tables/seed_results.json.
usage: run_seeds.py [id ...]"""
import json, os, re, subprocess, sys
VERIF = os.path.dirname(os.path.dirname(os.path.abspath(__file__)))
EXTRA = {"c01": ["C03", "C27", "C05"], "c27": ["C01", "C03"], "c03": ["C01"], "c06": ["C07"], "c02": ["C05"], "c04": ["C27"], "c05": ["C02"], "c28": ["C11"], "c07": ["C06", "C09"], "c11": ["C28"], "c19": ["C27"], "c21": ["C37"], "c23": ["C20"], "c24": ["C22"], "c35": ["C36"], "c36": ["C35"], "c31": ["C27"], "c30": ["C22"]}


def section(text, title):
    m = re.search(r"^##+\s*%s.*?\n(.*?)(?=^##+\s|\Z)" % title, text, re.S | re.M)
    return m.group(1).strip() if m else ""


def run(ids):
    res_path = os.path.join(VERIF, "tables", "seed_results.json")
    results = json.load(open(res_path)) if os.path.exists(res_path) else {}
    manifest = json.load(open(os.path.join(VERIF, "MANIFEST.json")))
    claimed = {c["property"] if "property" in c else c.get("id") for c in manifest.get("checks", [])}
    for sid in ids:
        d = os.path.join(VERIF, "seeded", sid)
        pid = sid.split("_")[0]
        props = ["C" + pid[1:]] + EXTRA.get(pid, [])
        props = [p for p in props if os.path.exists(os.path.join(VERIF, "rules", p.lower() + ".py"))]
        out = {}
        if props:
            cache = os.path.join(os.environ.get("VP_TRY_CACHE", "/nonexistent"), "try_%s.out" % sid)
            if os.path.exists(cache):
                # the output of an earlier `bin/try_patch.py seeded/<id>/patch.diff <props>` run, kept by the session driver
                class R0: pass
                r = R0()
                r.stdout = open(cache).read()
                r.returncode = 0 if r.stdout.rstrip().endswith("CAUGHT") else (1 if r.stdout.rstrip().endswith("MISSED") else 3)
            else:
                r = subprocess.run([sys.executable, os.path.join(VERIF, "bin", "try_patch.py"), os.path.join(d, "patch.diff")] + props, capture_output=True, text=True)
            cur = None
            for l in r.stdout.splitlines():
                m = re.match(r"== (C\d+) rc=(\d+)", l)
                if m:
                    cur = m.group(1)
                    out[cur] = {"rc": int(m.group(2)), "rules": []}
                m = re.match(r"\s+rule=(\S+) fn=(\S+)", l)
                if m and cur:
                    out[cur]["rules"].append("%s %s" % (m.group(1), m.group(2).split("::")[-1]))
            verdict = "caught" if r.returncode == 0 else ("missed" if r.returncode == 1 else "error: " + r.stdout[-200:])
        else:
            verdict = "no check for this property yet"
        notes = open(os.path.join(d, "notes.md")).read() if os.path.exists(os.path.join(d, "notes.md")) else ""
        conf = open(os.path.join(d, "confirm.log")).read() if os.path.exists(os.path.join(d, "confirm.log")) else ""
        cm = re.search(r"RESULT clean_ok=(\d+) mut_fail=(\d+)", conf)
        suite = re.findall(r"test result: (\w+)\. (\d+) passed; (\d+) failed", conf.split("### existing suite")[-1]) if "### existing suite" in conf else []
        meta = {
            "id": sid,
            "property": "C" + pid[1:],
            "origin": "fresh sub-agent given only the property text and its own scratch worktree of /repo",
            "mutation": section(notes, "Mutation")[:1500],
            "needs_to_manifest": section(notes, "What it needs to manifest")[:1500],
            "demonstration": "demo.diff (a test that passes on the unchanged tree and fails with patch.diff applied)",
            "confirmed_by_me": {
                "how": "bin/confirm_seed.sh in a scratch worktree under /tmp/seed: demo on clean tree, demo with patch, whole `cargo test -p dust_dds` suite with patch (demo removed) inside a private network namespace",
                "demo_passes_on_clean_tree": bool(cm and cm.group(1) != "0"),
                "demo_fails_with_patch": bool(cm and cm.group(2) != "0"),
                "existing_suite_with_patch": {"test_binaries": len(suite), "passed": sum(int(x[1]) for x in suite), "failed": sum(int(x[2]) for x in suite)},
                "log": "confirm.log",
            },
            "patch_rebased": os.path.exists(os.path.join(d, "patch.orig.diff")),
            "checks": {"verdict": verdict, "per_check": out, "command": "bin/try_patch.py seeded/%s/patch.diff %s" % (sid, " ".join(props))},
        }
        rp = os.path.join(d, "reconfirm.log")
        if os.path.exists(rp):
            t = open(rp).read()
            m2 = re.search(r"RESULT \S+ clean_ok=(\d+) mut_fail=(\d+)", t)
            h = re.search(r"HEAD (\w+)", t)
            meta["reconfirmed_at_repo_head"] = {"commit": h.group(1) if h else None, "demo_passes_on_head": bool(m2 and m2.group(1) != "0"),
                                                "demo_fails_with_patch": bool(m2 and m2.group(2) != "0"),
                                                "how": "bin/reconfirm_head.sh (fresh worktree of /repo HEAD, private network namespace)", "log": "reconfirm.log"}
        json.dump(meta, open(os.path.join(d, "meta.json"), "w"), indent=1)
        results[sid] = {"verdict": verdict, "by": {k: v["rules"][:3] for k, v in out.items() if v["rc"] == 1}}
        print(sid, verdict, {k: v["rc"] for k, v in out.items()})
    json.dump(results, open(res_path, "w"), indent=1, sort_keys=True)


def run_mutants(names):
    """hand-made mutants: mutants/<cNN>_<what>.patch, checked against CNN (+ EXTRA)"""
    res_path = os.path.join(VERIF, "tables", "mutant_results.json")
    results = json.load(open(res_path)) if os.path.exists(res_path) else {}
    touched = set()
    for fn in names:
        pid = fn.split("_")[0]
        props = ["C" + pid[1:]] + EXTRA.get(pid, [])
        props = [p for p in props if os.path.exists(os.path.join(VERIF, "rules", p.lower() + ".py"))]
        r = subprocess.run([sys.executable, os.path.join(VERIF, "bin", "try_patch.py"), os.path.join(VERIF, "mutants", fn)] + props, capture_output=True, text=True,
                           env=dict(os.environ, VP_NO_REWRITE="1"))
        touched.update(props)
        by = {}
        cur = None
        for l in r.stdout.splitlines():
            m = re.match(r"== (C\d+) rc=(\d+)", l)
            if m:
                cur = m.group(1)
            m = re.match(r"\s+rule=(\S+) fn=(\S+)", l)
            if m and cur:
                by.setdefault(cur, []).append("%s %s" % (m.group(1), m.group(2).split("::")[-1]))
        verdict = "caught" if r.returncode == 0 else ("missed" if r.returncode == 1 else "error: " + r.stdout[-200:])
        results[fn] = {"verdict": verdict, "by": {k: v[:3] for k, v in by.items()}}
        print(fn, verdict, list(by), flush=True)
        json.dump(results, open(res_path, "w"), indent=1, sort_keys=True)
    # evidence must describe the unchanged tree again
    for p in sorted(touched):
        subprocess.run([os.path.join(VERIF, "bin", "vp"), "check", p], capture_output=True, text=True, cwd=VERIF)


def run_benign(names):
    """behaviour-preserving edits (mutants/benign_*.patch): every check must stay silent"""
    man = json.load(open(os.path.join(VERIF, "MANIFEST.json")))
    props = [c["property_id"] for c in man["checks"]]
    res_path = os.path.join(VERIF, "tables", "benign_results.json")
    results = {}
    for fn in names:
        r = subprocess.run([sys.executable, os.path.join(VERIF, "bin", "try_patch.py"), os.path.join(VERIF, "mutants", fn)] + props, capture_output=True, text=True,
                           env=dict(os.environ, VP_NO_REWRITE="1"))
        alarms = {}
        cur = None
        for l in r.stdout.splitlines():
            m = re.match(r"== (C\d+) rc=(\d+)", l)
            if m:
                cur = m.group(1)
                if m.group(2) != "0":
                    alarms[cur] = []
            m = re.match(r"\s+rule=(\S+) fn=(\S+)", l)
            if m and cur in alarms:
                alarms[cur].append("%s %s" % (m.group(1), m.group(2).split("::")[-1]))
        results[fn] = {"checks_run": len(props), "alarms": alarms, "verdict": "silent" if not alarms else "FALSE ALARM"}
        print(fn, results[fn]["verdict"], alarms, flush=True)
        json.dump(results, open(res_path, "w"), indent=1, sort_keys=True)
    for p in props:
        subprocess.run([os.path.join(VERIF, "bin", "vp"), "check", p], capture_output=True, text=True, cwd=VERIF)


if __name__ == "__main__":
    if len(sys.argv) > 1 and sys.argv[1] == "--benign":
        run_benign(sys.argv[2:] or sorted(f for f in os.listdir(os.path.join(VERIF, "mutants")) if f.startswith("benign")))
    elif len(sys.argv) > 1 and sys.argv[1] == "--mutants":
        names = sys.argv[2:] or sorted(f for f in os.listdir(os.path.join(VERIF, "mutants")) if f.endswith(".patch") and not f.startswith("benign"))
        run_mutants(names)
    else:
        ids = sys.argv[1:] or sorted(os.listdir(os.path.join(VERIF, "seeded")))
        run(ids)
