#!/bin/bash
# usage: reconfirm_head.sh <worktree-slot> <seed id>...   — re-checks seeds against /repo HEAD:
# the demonstration passes on HEAD and fails on HEAD + patch.diff. Appends to seeded/<id>/reconfirm.log
set -u
slot=$1; shift
wt=/tmp/seed/head_$slot
export CARGO_NET_OFFLINE=true CARGO_TARGET_DIR=/tmp/seed/head_${slot}_target
if [ ! -d $wt ]; then git -C /repo worktree add --detach $wt HEAD -q; fi
cd $wt && git checkout -q --detach $(git -C /repo rev-parse HEAD) && git checkout -q -- . && git clean -fdq
for s in "$@"; do
  d=/verif/seeded/$s; log=$d/reconfirm.log; : > $log
  echo "HEAD $(git rev-parse --short HEAD)" >> $log
  git checkout -q -- . && git clean -fdq
  if ! git apply $d/demo.diff 2>>$log; then echo "RESULT $s demo_applies=0" | tee -a $log; continue; fi
  demo_file=$(grep -h "^+++ b/" $d/demo.diff | head -1 | sed 's#+++ b/##')
  names=$(python3 - "$d/demo.diff" <<'PY'
import re,sys
lines=open(sys.argv[1]).read().splitlines()
names=[]
for i,l in enumerate(lines):
    if re.match(r"^\+\s*#\[(tokio::)?test", l):
        for j in range(i+1,min(i+6,len(lines))):
            m=re.search(r"fn\s+([a-zA-Z0-9_]+)", lines[j])
            if m: names.append(m.group(1)); break
print(" ".join(names))
PY
)
  if [[ "$demo_file" == dds/tests/* ]]; then sel="--test $(basename $demo_file .rs)"; else sel="--lib -- $names"; fi
  run() { timeout 1500 unshare -n bash -c "ip link set lo up; ip link set lo multicast on; ip route add 224.0.0.0/4 dev lo; cargo test -p dust_dds --offline $sel 2>&1" | grep -E "^test |test result|error(\[|:)" | tail -12; }
  echo "### demo on HEAD ($sel)" >> $log; run >> $log 2>&1
  c=$(grep -c "test result: ok" $log)
  if ! git apply $d/patch.diff 2>>$log; then echo "RESULT $s clean_ok=$c patch_applies=0" | tee -a $log; continue; fi
  echo "### demo on HEAD + patch" >> $log; run >> $log 2>&1
  f=$(grep -c "test result: FAILED" $log)
  echo "RESULT $s clean_ok=$c mut_fail=$f" | tee -a $log
done
git checkout -q -- . && git clean -fdq
