#!/usr/bin/env python3
"""Apply a patch to /repo, run the given checks, restore /repo.  usage: try_patch.py <patch> C01 [C02 ...]
Exit 0 if at least one of the checks reports a VIOLATION (the mutant is caught)."""
import os, subprocess, sys
VERIF = os.path.dirname(os.path.dirname(os.path.abspath(__file__)))
patch = os.path.abspath(sys.argv[1])
props = sys.argv[2:]
st = subprocess.run(["git", "-C", "/repo", "status", "--porcelain", "--untracked-files=no"], capture_output=True, text=True).stdout.strip()
if st:
    print("refusing: /repo has local modifications:\n" + st)
    sys.exit(3)
r = subprocess.run(["git", "-C", "/repo", "apply", "--3way", patch], capture_output=True, text=True)
if r.returncode != 0:
    r = subprocess.run(["git", "-C", "/repo", "apply", patch], capture_output=True, text=True)
if r.returncode != 0:
    # a failed 3-way attempt can leave conflict markers / unmerged index entries behind
    subprocess.run(["git", "-C", "/repo", "reset", "-q", "--hard", "HEAD"])
    print("patch does not apply:\n" + r.stderr)
    sys.exit(3)
caught = False
try:
    for p in props:
        env = dict(os.environ, VP_NO_EVIDENCE="1")
        c = subprocess.run([os.path.join(VERIF, "bin", "vp"), "check", p], capture_output=True, text=True, cwd=VERIF)
        lines = [l for l in c.stdout.splitlines() if l.startswith(("VIOLATION", "  rule=", "SUMMARY", "INFRA", "KNOWN"))]
        print("== %s rc=%d" % (p, c.returncode))
        for l in lines[:12]:
            print("   " + l[:400])
        if c.returncode == 1:
            caught = True
finally:
    subprocess.run(["git", "-C", "/repo", "reset", "-q", "--hard", "HEAD"])
    subprocess.run(["git", "-C", "/repo", "status", "--porcelain", "--untracked-files=no"])
    # evidence files must describe the real tree: rewrite them (a batch driver sets VP_NO_REWRITE and does it once at the end)
    for p in ([] if os.environ.get("VP_NO_REWRITE") else props):
        subprocess.run([os.path.join(VERIF, "bin", "vp"), "check", p], capture_output=True, text=True, cwd=VERIF)
print("CAUGHT" if caught else "MISSED")
sys.exit(0 if caught else 1)
