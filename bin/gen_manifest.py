#!/usr/bin/env python3
"""Regenerates MANIFEST.json from rules/*.py metadata and tables/not_applicable.json."""
import importlib, json, os, sys
VERIF = os.path.dirname(os.path.dirname(os.path.abspath(__file__)))
sys.path.insert(0, os.path.join(VERIF, "engine")); sys.path.insert(0, VERIF)
props = [json.loads(l) for l in open(os.path.join(VERIF, "properties.jsonl"))]
na = json.load(open(os.path.join(VERIF, "tables", "not_applicable.json")))
checks, not_app = [], []
for p in props:
    pid = p["id"]
    path = os.path.join(VERIF, "rules", pid.lower() + ".py")
    if os.path.exists(path) and pid not in na.get("final", {}):
        m = importlib.import_module("rules." + pid.lower())
        checks.append({
            "property_id": pid,
            "quick_cmd": "bin/vp check %s --tier quick" % pid,
            "thorough_cmd": "bin/vp check %s --tier thorough" % pid,
            "evidence_file": "/verif/evidence/%s.json" % pid,
            "replay_cmd_template": "bin/vp explain {path}",
            "engine": "mirfacts+vplib",
            "level_claimed": {"category": "other",
                              "text": getattr(m, "LEVEL_TEXT", (m.__doc__ or "").strip().split("\n\n")[0]),
                              "design_ref": "DESIGN.md §4 " + pid},
            "level_note": getattr(m, "LEVEL_NOTE", "Trusted: rustc MIR construction and callee resolution, the mirfacts extractor, vplib CFG/dataflow, and the reviewed tables named in the rule. Decides the structural clause stated in DESIGN.md §4, not the behaviour as a whole."),
            "technique": getattr(m, "TECHNIQUE", "static analysis over MIR facts"),
        })
    else:
        reason = na.get("final", {}).get(pid) or na.get("pending", {}).get(pid) or "no static rule built yet for this property (see DESIGN.md §4)"
        not_app.append({"property_id": pid, "reason": reason})
man = {
    "version": 1,
    "setup_cmd": "./setup.sh",
    "hooks": {"guard": "dust_dds_verif", "enable": "none needed: static analysis reads MIR of the unmodified build (cargo +nightly check with RUSTC_WORKSPACE_WRAPPER=engine/mirfacts)",
              "baseline_off_cmd": "cd /repo && cargo nextest run --workspace --no-fail-fast --test-threads 8 --offline || cargo test --workspace --no-fail-fast --offline",
              "source_commits": [], "add_only": True},
    "engines": [
        {"name": "mirfacts", "path": "engine/mirfacts", "serves_properties": [c["property_id"] for c in checks],
         "kind_free_text": "rustc_private driver (RUSTC_WORKSPACE_WRAPPER) dumping type-checked pre-borrowck MIR, resolved callees, ADT and impl tables of dust_dds and dust_dds_derive as JSON facts"},
        {"name": "vplib+rules", "path": "engine/vplib", "serves_properties": [c["property_id"] for c in checks],
         "kind_free_text": "python3 stdlib rule engine: CFG/dominance/loops, condition provenance, place origins, derived-from closure, interval analysis, call graph; rules/cNN.py hold repository-specific rule instances"},
    ],
    "checks": checks,
    "not_applicable": not_app,
    "notes": "Technique family: static analysis only. Every check re-extracts facts when /repo's sources changed (hash of dds/, dds_derive/, Cargo.toml, Cargo.lock). Known findings: known_findings.json. Exit 0 held / 1 VIOLATION / 2 infrastructure error.",
}
json.dump(man, open(os.path.join(VERIF, "MANIFEST.json"), "w"), indent=1)
print("checks:", len(checks), "not_applicable:", len(not_app))
